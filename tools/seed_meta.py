#!/usr/bin/env python3
"""usage: seed_meta.py <name> <property> "<summary>" "<needs>" <replay note>  -- writes seeded/<name>/meta.json from check.log"""
import json, sys, os, re
name, prop, summary, needs, replay = sys.argv[1:6]
d = '/verif/seeded/' + name
log = open(d + '/check.log').read() if os.path.exists(d + '/check.log') else ''
det = sorted(set(re.findall(r'obligation: (.*?) \(', log)))
rcs = re.findall(r'rc\[(C\d+)\]=(\d)', log)
meta = {
 "property": prop, "summary": summary, "needs": needs,
 "detected_by": det if det else ["NOT DETECTED"],
 "checks_run": {k: ("violation reported" if v == "1" else "passed (not detected by this property's check)") for k, v in rcs},
 "replay": replay,
 "ran": ["tools/confirm_seed.sh (scratch worktree: patch applies, go build, full suite passes with the demo skipped, demo fails with / passes without the patch) — see confirm.log",
         "tools/run_seed.sh seeded/%s %s (patch applied to a scratch worktree of /repo HEAD, govc check with VERIF_REPO pointing at it, worktree removed) — see check.log" % (name, ' '.join(k for k, _ in rcs))],
 "origin": "independent sub-agent given only the property text and a scratch worktree (contract files removed)",
}
json.dump(meta, open(d + '/meta.json', 'w'), indent=1)
print(name, meta["detected_by"][:3])
