#!/bin/bash
# usage: mk_seed_task.sh <round prefix, e.g. seed3> <property ids...>
# creates /tmp/<prefix>-<id> (scratch worktree of /repo HEAD without the contract files) and /tmp/<prefix>-prompt-<id>.txt
pfx=$1; shift
for id in "$@"; do
  wt=/tmp/$pfx-$id
  git -C /repo worktree remove --force $wt 2>/dev/null
  git -C /repo worktree add -q --detach $wt HEAD || exit 2
  (cd $wt && find . -name zz_contracts_verif.go -delete && git -c user.name=s -c user.email=s@s commit -qam "scratch base")
  python3 - "$id" "$wt" "$pfx" <<'PY'
import sys, json
id, wt, pfx = sys.argv[1:4]
prop = None
for line in open('/verif/properties.jsonl'):
    d = json.loads(line)
    if d.get('id') == id: prop = d
text = "%s — %s\n\n%s\n\nQuantified: %s\n\nWhy the existing tests cannot settle it: %s\n\nCode it is anchored in: %s\n" % (prop['id'], prop['title'], prop['statement'], prop['quantifier']['text'], prop['why_tests_cant'], ', '.join(prop['anchors'].get('files', [])))
t = open('/verif/tools/seed_prompt.txt').read().replace('__WT__', wt).replace('__PROP__', text)
open('/tmp/%s-prompt-%s.txt' % (pfx, id), 'w').write(t)
PY
done
