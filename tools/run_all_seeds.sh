#!/bin/bash
# usage: run_all_seeds.sh [parallelism, default 4] [seed names...]
# Re-runs every seeded change under /verif/seeded against the check of its property (meta.json "property"; a seed tagged for
# two properties in its directory name's table row is run for the one in meta.json) and prints one line per seed.
# Exit status 1 when a seed is no longer detected.
par=${1:-4}; shift
seeds="$@"; [ -z "$seeds" ] && seeds=$(ls /verif/seeded)
out=/tmp/allseeds.$$; mkdir -p $out
run_one() {
  s=$1; prop=$(python3 -c "import json;print(json.load(open('/verif/seeded/$s/meta.json'))['property'])")
  /verif/tools/run_seed.sh /verif/seeded/$s $prop > $2/$s.log 2>&1
  if ! git -C /repo apply --check /verif/seeded/$s/patch.diff 2>/dev/null; then echo "stale         $s ($prop): the patch no longer applies to /repo HEAD (written against code that was repaired since)"; return; fi
  if grep -q "^rc\[$prop\]=1" $2/$s.log; then echo "detected      $s ($prop): $(grep -m1 'obligation:' $2/$s.log | sed 's/.*obligation: //' | cut -c1-110)"; else echo "NOT DETECTED  $s ($prop)"; fi
}
export -f run_one
printf "%s\n" $seeds | xargs -P $par -I{} bash -c "run_one {} $out" | tee $out/summary.txt
n=$(grep -c "NOT DETECTED" $out/summary.txt); cp $out/summary.txt /verif/seeded/LAST_RUN.txt; rm -rf $out
[ "$n" = "0" ]
