HOOK_COMMITS = ["90d925a"]

CLAIMED["C15"] = dict(
    text="Proof: Command.Covers and command.Parse are verified, for every pair of strings, against spec functions taken from the property "
         "(coversSpec = textual prefix + segment boundary; validCmd = leading slash, no trailing slash, lower-case fixed point); "
         "reflexivity, antisymmetry, transitivity, top-covers-all and no-textual-prefix are proved as lemmas over coversSpec. "
         "The bridge from coversSpec to 'segments are a list prefix' is the Lean lemma of DESIGN.md App. D.",
    note="Assumed: strings.HasPrefix/HasSuffix as their definitions; 'no upper-case letters' is read as strings.ToLower(s)==s.",
    design="DESIGN.md §3 C15",
)
for pid, why in {
    "C01": "check under construction in this session (contracts for verifyProofs not yet registered)",
}.items():
    NOT_APPLICABLE[pid] = why
