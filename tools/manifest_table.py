HOOK_COMMITS = ["90d925a", "8940632", "5dcbe49", "0243fbe", "56c02d7", "1d7d127", "9681393", "301afe1", "c53dffa", "67987dc", "2fe230a", "be4cb7c", "58c1ed1", "db7e45f", "15dd738", "60f6e04", "5ca7db3", "6c5726d", "77776c2", "3f0d0a1"]

CHAIN_NOTE = ("Assumed: delegation.Loader.GetDelegation is a function of (loader, cid) during one check and returns a non-nil token when err == nil; "
              "time.Now() names one instant per check and After/Before compare abstract instants; fmt.Errorf returns non-nil; "
              "matchStatement and Args.ToIPLD are used through contracts that are trusted here (matchStatement == sem is the subject of C11). "
              "Input validity (requires): receiver, loader and arguments non-nil; policies of loadable delegations contain no nil statement.")

CLAIMED["C01"] = dict(
    text="Proof: verifyProofs is verified against chainOK (non-empty, every delegation names the invocation's subject, audience/issuer alignment link by link, "
         "root issued by its subject) through an inductive loop invariant over a symbolic proof list of symbolic length; loadProofs is verified against the loader "
         "function; executionAllowed / ExecutionAllowed are verified to return nil only if allowedSpec (which does not mention the audience) holds. "
         "A failed obligation is replayed on the real code with a battery of chains (go test -overlay).",
    note=CHAIN_NOTE, design="DESIGN.md §3 C01/C02/C05")
CLAIMED["C02"] = dict(
    text="Proof: the command clause of chainOK (coversSpec link by link, the first delegation covering the invoked command) is part of the verified post-condition of "
         "verifyProofs and executionAllowed; Command.Covers is verified against coversSpec for all pairs of strings.",
    note=CHAIN_NOTE, design="DESIGN.md §3 C01/C02/C05")
CLAIMED["C03"] = dict(
    text="Proof: Policy.Match returns true exactly when every statement passes (loop invariant); verifyArgs aggregates the policies of every delegation "
         "(invariants over append) and returns nil only if every statement of every delegation's policy passes on the argument node; "
         "ExecutionAllowedWithArgsHook is verified to check the arguments returned by the hook. Monotonicity follows from the post-condition being a conjunction over all links and statements.",
    note=CHAIN_NOTE + " Input bound (part of the stated input validity wfLoaded): at most 2^20 proofs with at most 2^32 statements each, which keeps the statement count used by make(policy.Policy, 0, count) inside int.", design="DESIGN.md §3 C03")
CLAIMED["C04"] = dict(
    text="Proof: both IsValidAt methods are verified against the window specification for every instant and every combination of present/absent bounds "
         "(strictly inside => valid, strictly outside => invalid); verifyTimeBoundAt is verified with a loop invariant to return nil only if the invocation and "
         "every delegation are valid at the instant of the check.",
    note=CHAIN_NOTE, design="DESIGN.md §3 C04")
CLAIMED["C05"] = dict(
    text="Proof of the converse direction: for loadProofs, verifyProofs, verifyTimeBoundAt, verifyArgs, Policy.Match and executionAllowed the post-condition "
         "'spec holds => err == nil' is verified; allowedSpec does not mention audience, metadata, nonce, cause or issue time, so the proved equivalence is the independence statement.",
    note=CHAIN_NOTE + " Input bound: see C03 (proof list and policy sizes).", design="DESIGN.md §3 C01/C02/C05")
CLAIMED["C15"] = dict(
    text="Proof: Command.Covers and command.Parse are verified, for every pair of strings, against spec functions taken from the property "
         "(coversSpec = textual prefix + segment boundary; validCmd = leading slash, no trailing slash, lower-case fixed point); "
         "reflexivity, antisymmetry, transitivity, top-covers-all and no-textual-prefix are proved as lemmas over coversSpec.",
    note="Assumed: strings.HasPrefix/HasSuffix as their definitions; 'no upper-case letters' is read as strings.ToLower(s)==s. "
         "The bridge from coversSpec to 'segments are a list prefix' is a Lean 4 proof (lemmas/Seg.lean) re-checked by lean on every run, with a drift guard tying its definition to the contract's coversSpec; the string-vs-character-list reading of those definitions is by inspection. Command.Join is verified against the fold joinSpec (size bounds as preconditions: at most 2^20 segments of at most 2^32 bytes), Command.Segments against the pieces of strings.Split (named by ghost functions; that Split is Lean's splitOn is assumed); Lean proves segs(joinSpec c ss) = segs c ++ ss for non-empty separator-free segments.",
    design="DESIGN.md §3 C15")
CLAIMED["C13"] = dict(
    text="Proof (unbounded): glob.Match is verified for every pattern and every string against the recursive language definition globM "
         "(unescaped * = any sequence, backslash+c = literal c, anything else = itself) through inductive invariants of the greedy single-backtrack matcher "
         "and two induction lemmas about * (absorbs a suffix; can start earlier); termination by a lexicographic measure; parseGlob is verified to reject exactly "
         "the patterns with a lone trailing backslash and to return the others unchanged.",
    note="Nothing assumed beyond the common base (strings are byte sequences). Not yet under contract: the `like` arm of matchStatement that feeds Match (selected node must be a string) - part of C11.",
    design="DESIGN.md §3 C13")
CLAIMED["C20"] = dict(
    text="Proof of the frame condition: 119 read-only operations (token accessors, IsValidAt/IsValidNow, ExecutionAllowed / ExecutionAllowedWithArgsHook and the three verify* stages, "
         "loadProofs, Policy.Match / PartialMatch, glob.Match, resolveSliceIndices, Args.{GetNode,Iter,ToIPLD,Equals,String,ReadOnly,Clone,Validate}, Meta.{Get*,Iter,Equals,String,ReadOnly,Clone}, the args.ReadOnly and meta.ReadOnly facades (every method but WriteableClone), Policy.String and the String method of each of the five statement kinds, DID.PubKey with the two key unmarshallers of package did, container.Reader.GetAllDelegations / GetAllInvocations (iterator bodies), sealing and encoding (toIPLD, Encode, ToSealed, ToSealedWriter of both token types: they change only the ghost signing count and the caller's writer), statementToIPLD / statementsToIPLD, Selector.String, Command.Join / Segments) "
         "carry `assigns nothing`: for every store, map update, in-place append and every callee with a non-empty assigns set the obligation 'the written location was not allocated on entry' is discharged. "
         "By the meta-theorem of DESIGN.md §3 C20 this gives data-race freedom and repeatability for every interleaving.",
    note="Trusted: the frame => race-freedom meta-theorem; dependency calls on these paths (qp builders, printer.Sprint, DeepEqual, sort.Strings writes only its argument, slices.Clone returns fresh memory) write nothing reachable from their arguments; "
         "function values passed in by the caller (iterator yield, args hook) are effect-free. The dynamic call Statement.String inside the printers goes through an assumed interface contract (writes nothing); each of the five implementations in the package is verified against that frame separately, and wfStmt (input validity) says a statement is one of the five. Not yet under contract for the frame: ReadOnly.WriteableClone (modelling limit, DESIGN.md 7.3), Selector.Select (verified inlined in its callers). In DID.PubKey the unmarshaller is a function value picked from a map: its application is assumed effect-free; the two unmarshallers defined in this repository are verified against the empty frame, the three libp2p ones are dependencies.",
    design="DESIGN.md §3 C20")
CLAIMED["C06"] = dict(
    text="Proof of a relational post-condition over uninterpreted dependency functions (a data-flow theorem about the real bodies): envelope.Inspect is verified (iterator loop invariants) "
         "to accept only a signed part that is a map of exactly two entries, the varsig header 'h' and one 'ucan/...' tag, and to record exactly those; the generic FromIPLD[T] is verified inlined into "
         "delegation.FromIPLD and invocation.FromIPLD: err == nil implies envelopeVerified(node, Tag) — the signature taken from node[0] verifies, under the key extracted from the DID parsed from the payload's iss entry, "
         "over the DAG-CBOR encoding of the signed part node[1]; the announced header equals the varsig header of that key's type; the tag is the requested type's tag — and the returned token's issuer is that DID. "
         "Decode/FromDagCbor/FromSealed and the generic token.fromIPLD/Decode/FromSealed are verified to return a token only through these decoders.",
    note="Assumed (trusted, DESIGN.md §3 C06): unforgeability of the signature schemes (sigVerify is uninterpreted), DAG-CBOR encode/decode as functions of node/bytes, did.PubKey and varsig.Encode through trusted contracts (pubKeyOf, varsigOf), "
         "bindnode: AssignNode/Build/Unwrap preserve the payload node, the unwrapped model's Iss field is the node's iss entry, required fields are set. 'No modification of the bytes yields a different accepted token' is decided modulo these assumptions.",
    design="DESIGN.md §3 C06")
CLAIMED["C10"] = dict(
    text="Proof: validate (both token types) == the well-formedness predicate (defined issuer, the other required principal, nonce >= 12 bytes); constructors New/Root return exactly the object validate accepted "
         "(options are arbitrary functions that may assign any token field); tokenFromModel (both) additionally establishes a valid command (command.Parse), time bounds within +/-(2^53-1) (OptionalTimestamp), "
         "argument / policy integers in bounds (ValidateIntegerBoundsIPLD, verified recursively over the abstract node structure with iterator invariants and a termination measure; Args.Validate with a map-coverage invariant); "
         "literal.Any stores every Go integer exactly or rejects it (fast path: verified against storedExactly; reflection path anyAssemble: verified with `exactconv` — every integer conversion preserves the mathematical value, so an unsigned value beyond 2^53-1 is refused before it is narrowed), Args.Add stores exactly Any(val), rejects duplicates and leaves the Args unchanged on error; decoders accept only the two-entry signed part under the requested tag (C06 contracts).",
    note="Assumed: bindnode schema strictness (unknown, missing or wrongly typed payload fields are rejected by AssignNode against the embedded .ipldsch) — a dependency behaviour contracts cannot decide here; "
         "the reflection-based slow path of literal.Any (anyAssemble) is verified for its integer conversions and its non-nil result only: what the quick-build assemblers (qp.*) then write, and reflect itself, are assumed contracts; its recursion is assumed to terminate (`decreases _`) and panicking is its interface (`maypanic`; Any recovers); policy.FromIPLD is proved under C14.",
    design="DESIGN.md §3 C10")
for pid in []:
    NOT_APPLICABLE[pid] = "contracts for this property are not registered yet in this tree (work in progress; see DESIGN.md §6 staging)"

STREAM_NOTE = ("Assumed (trusted, stubs/io.spec): the io.Reader / io.Writer protocol; delivered/written and the fault counters failed/wfailed are ghost history variables of the "
               "interface value whose evolution per call is given by `defines` clauses; go-ipld-prime's streaming codecs consume / produce exactly the bytes their buffered "
               "counterparts decode / return and report the first read or write error of the stream they are given (refmt latches it; read from the sources); "
               "sha256 / multihash / cid.NewCidV1 are uninterpreted functions related by one axiom (cid_sum_sha256: V1Builder.Sum is their composition). "
               "A callee that calls Read/Write of an in-repo wrapper an unknown number of times (DecodeStreaming over a CIDReader, EncodeStreaming over a CIDWriter) is summarised "
               "by the wrapper's `stream` invariants, which are proved inductive (base and step) from the wrapper's own verified contract.")
CLAIMED["C08"] = dict(
    text="Proof: CIDFromBytes and cidFromHash are verified to return cidSum(1, dag-cbor, sha2-256, default length) of the given bytes / of everything absorbed by the hash; "
         "CIDReader.Read and CIDWriter.Write are verified to absorb exactly the bytes handed through, and their stream invariants carry this across the unknown number of calls a codec makes; "
         "ToSealed, ToSealedWriter, FromSealed, FromSealedReader (delegation, invocation and the generic token package) are verified to report ucanCid of exactly the sealed bytes written / read, "
         "so buffered and streaming calls and seal and unseal agree by congruence. Signing may be randomised: the sealed node is a function of (token, key, signing index) and every sealing function is verified to sign exactly once; "
         "every method declared on CIDReader / CIDWriter must be under contract (a dependency may reach it through an optional interface).",
    note=STREAM_NOTE + " Not decided here (honest gap): the canonicity clause — dagcbor.Decode is lenient (an assumed contract states only determinism), so two byte strings with the same decoded content "
         "may both be accepted under different CIDs; toIPLD (envelope construction and signing) is used through a trusted contract naming the sealed node.",
    design="DESIGN.md §3 C08, §7")
CLAIMED["C17"] = dict(
    text="Proof: Reader.addToken is verified to add an entry only under ucanCid(sealed bytes), only after the verifying decoder accepted those bytes, and to leave every other entry untouched; "
         "FromCborReader is verified (iterator loop invariant) to return all-or-nothing and to have passed every list element through addToken; GetToken/GetDelegation return exactly the stored entry; "
         "readBlock is verified to accept a CAR block only if its CID equals the prefix-sum of its data; the byte-slice and base64 variants of every reader are verified to be the stream reader over the same (decoded) bytes.",
    note=STREAM_NOTE + " FromCarReader, writeCar, ToCarWriter, readCar and its block iterator, readHeader and carHeader.Write are verified too (range-over-func loops through the yield closure, with invariants: "
         "every entry labelled by the CID of verified bytes, no block the iterator reports as unreadable is skipped); the iterator value itself is unknown to its consumer (assumed: it calls yield with arbitrary arguments, stops after false, terminates). "
         "The naming of a reader's outcome as a function of the content (determinism of the decoders) is assumed. Byte-level read(write(x)) = x rests on the assumed codec contracts.",
    design="DESIGN.md §3 C17, §7")
CLAIMED["C18"] = dict(
    text="Proof: ghost fault counters on abstract streams quantify over every fault position at once. CIDReader.Read latches every non-EOF error and CIDReader.CID refuses after one; "
         "FromSealedReader returns a token and CID only for bytes x that the source delivered without a fault, with CID = ucanCid(x) and the token decoded from x (equal to the buffered result by congruence); "
         "ToSealedWriter / EncodeWriter return nil only if the sink accepted exactly the buffered encoding without a fault; ToCborWriter, ldWrite (loop invariants) and the base64 writers return nil only if no write failed, "
         "including the final flush of the base64 encoder; ldRead / readBlock return io.EOF only at a section boundary and never after a fault.",
    note=STREAM_NOTE + " Chunking independence is inherited from the assumed codec contract (decode of the delivered prefix).",
    design="DESIGN.md §3 C18, §7")

CLAIMED["C12"] = dict(
    text="Proof (unbounded): selector.resolve is verified, for a symbolic selector of symbolic length over an abstract node algebra, to return exactly the fold of one-segment steps: "
         "a trace tr(i) is defined by tr(0) = subject, tr(i+1) = stepVal(sel[i], tr(i)); the loop invariant is cur == tr(k) and no earlier step failed; err == nil implies result == tr(len(sel)) and no step fails, "
         "err != nil implies some step fails and none before it — so no part of a selector is ignored and no value is returned early. stepVal / stepFails are the documented one-segment semantics: fields on maps, "
         "indexes on lists and bytes with negative indexes from the end, slices on lists / bytes / strings by code point with Python clamping (resolveSliceIndices is verified against Python's slice.indices), the iterator "
         "(map -> list of its values in iteration order, list unchanged, optional on null -> empty list), identity; failing optional steps yield no-value, which is carried on to the next step. "
         "The lists the code builds through qp.BuildList callbacks are proved element by element (loop invariants over the assembled sequence) to be the values of the map / the requested range of the list.",
    note="Modelling decision: a node built by go-ucan (basicnode.New*, qp.BuildList) is identified with its constructor arguments (nodes are immutable data; go-ucan never compares node identities). "
         "Assumed (stubs/ipld.spec): node observers (Kind, Length, LookupBy*, As*, iterators) as functions of the abstract node structure; qp.BuildList with basicnode.Prototype.Any fails only if its callback panics "
         "(every panic site in the callbacks is discharged as unreachable); []rune(s) / string(runes) through uninterpreted rune functions (runeCount, runeSlice). "
         "The trace function is introduced by a definitional `given` clause (conservative: recursion over the selector). "
         "A quoted empty field name `[\"\"]` is represented like index 0 by the parser; the contract follows the representation (the text-level reading is C14).",
    design="DESIGN.md §3 C12, §7")

CLAIMED["C14"] = dict(
    text="Proof for the selector side: tokenize is verified (loop invariant over a recursive concatenation spec of the token slice) to cut the text into non-empty tokens that, joined, are the input — nothing is dropped, "
         "also after an unterminated quote; Parse is verified to produce exactly one segment per token that records the token's text (an identity token's optional markers are the only normalisation), "
         "the optional flag, a well-formed slice whose two bounds are owned by that segment alone, a field segment for every quoted name (an empty quoted name is rejected), and no selector on rejected input; "
         "Selector.String is verified to print the recorded texts joined; hence (Parse post-condition `roundtrip`, by induction lemmas) printing a parsed selector reproduces the input whenever nothing was normalised. "
         "Proof for the policy side: FromIPLD / statementFromIPLD / statementsFromIPLD are verified (mutual recursion with a termination measure on the node) to return an error or a *faithful reading* of the node "
         "(relation reprs, defined by structural recursion: exact tuple length per operator, the operator, literal and pattern taken over unchanged, nested statements faithful readings of the nested nodes, one per element); "
         "the selector of every decoded leaf statement is a reading of the node's text (selReads: one segment per token, meaning what the token says); FromDagJson is FromIPLD of the standard DAG-JSON decoding. "
         "The constructors (Equal … LessThanOrEqual, Like, Not, And, Or, All, Any, assemble, Construct) are verified to build the statement they name: operator, literal, pattern (accepted exactly when well-formed), "
         "selector read from the text given, one nested statement per inner constructor in order.",
    note="Policy write-back (statementsToIPLD / statementToIPLD) is verified to produce a node of which the statement is a faithful reading (same relation reprs), so a policy and its decoded re-encoding are faithful readings of one node: "
         "equal operators, lengths, literals and patterns at every depth — that corollary (an induction over two statement trees) is on paper. Not proved (honest gaps): the selector stored in a statement is not related to the node's text inside reprs; "
         "behavioural equality after a round trip is not under contract. "
         "Assumed: what the three regular expressions guarantee about a matching text (first characters, presence of ':') — `given` clauses that hold only for the exact pattern text found in the package initialiser "
         "(an edited pattern loses them); the definitional unfolding of reprs at the decoder's return points (statements are immutable once built); strconv / strings helpers through stubs.",
    design="DESIGN.md §3 C14, §7")

CLAIMED["C11"] = dict(
    text="Proof (unbounded): matchStatement is verified, for every well-formed statement tree and every node, to return sem(statement, node) — a four-valued semantics (true / false / no data / optional no data) "
         "defined by structural recursion: leaves are no-data when the selector fails (selector resolution through the verified contract of C12), optional-no-data when it yields no value, otherwise the classical truth of "
         "== (DeepEqual), < <= > >= (same-kind numbers only: int64-representable integers, finite floats), like (the glob language of C13; non-strings are false); not swaps true/false; and / all take the worst and or / any the best "
         "outcome of their operands / list elements in the order true < optional-no-data < no-data < false, characterised by 'bounds every operand and is attained', which does not mention operand order. "
         "Recursion terminates (measure on finite statement trees), loops over operands / list elements carry 'worst / best so far' invariants. Policy.Match / PartialMatch are verified against the conjunction over statements. "
         "The property's clauses are machine-checked lemmas over that characterisation: invariance under any permutation of operands / elements, monotonicity of and/all for both notions of passing, "
         "classical and/or when all operands have data, full match implies partial match, required-vs-optional missing data, Match(P++Q) = Match(P) && Match(Q).",
    note="Input validity (requires): statements are well-formed finite trees of the package's five statement types with consistent kinds, non-nil operands and well-formed selectors (what the constructors and the verified decoder produce; "
         "the unfolding of wfStmt and the definition of sem are `given` clauses — definitional). ['or', []] is true and `any` over an empty list is false (the implementation's conventions, pinned by the existing tests). "
         "Assumed: datamodel.DeepEqual, cmp.Compare, math.IsInf/IsNaN, node observers through stubs; floats are an uninterpreted sort (NaN / Inf only as 'comparison is false').",
    design="DESIGN.md §3 C11, §7")

CLAIMED["C16"] = dict(
    text="Proof over uninterpreted multibase / varint / key functions (a data-flow theorem about the real bodies): did.Parse accepts exactly the texts 'did:key:' + a Base58BTC multibase string whose bytes start with a minimal varint of a supported key code "
         "(Ed25519, P-256, P-384, P-521, secp256k1, RSA) and returns those bytes and that code; DID.String prints 'did:key:' + Base58BTC(bytes); the lemma text_roundtrip shows that printing then parsing gives back the DID for every code FromPubKey can produce "
         "(it needs generatable codes to be parseable, multibase decode-after-encode and varint read-after-write: two axioms on the dependencies); FromPubKey is verified to produce a generatable code and bytes that start with the varint of exactly that code; "
         "DID.PubKey and the ECDSA / RSA unmarshallers are verified to return a key or an error for every DID accepted by Parse (no panic: the nil point of elliptic.UnmarshalCompressed is checked; the slice bound follows from the varint prefix), "
         "and a secp256k1 identifier yields a key only in the compressed form FromPubKey produces.",
    note="Assumed (stubs/multiformats.spec, stubs/crypto.spec): multibase decode(encode(Base58BTC, b)) = b; varint read-after-write and minimality; the shapes of libp2p / x509 / elliptic results (an ECDSA-typed key wraps a non-nil *ecdsa.PublicKey, "
         "PKIX of a libp2p ECDSA / RSA key parses back to a key of that kind, UnmarshalCompressed may return (nil, nil)). Not decided (honest gap): equality of the extracted key with the original and injectivity of key serialisation "
         "(they live in the cryptographic libraries: the dispatch through the unmarshaller table is an opaque function value here), canonical encodings of RSA keys.",
    design="DESIGN.md §3 C16, §7")

CLAIMED["C19"] = dict(
    text="Proof over an uninterpreted secretbox (a data-flow theorem about the real bodies): validateKey accepts exactly the keys that are present, 32 bytes long and not all zero (loop invariant); "
         "EncryptWithKey returns, for an accepted key only, a 24-byte nonce followed by box(plaintext, nonce, key), where the nonce is exactly what the system random source delivered during this call; "
         "DecryptStringWithKey returns a value only if the key is accepted and the bytes after the first 24 authenticate under (those 24 bytes, key), and then returns the opened message; "
         "Meta.AddEncrypted stores exactly that ciphertext under the given name (strings and byte slices only) and GetEncryptedBytes / GetEncryptedString return only opened messages of the stored bytes. "
         "The lemma roundtrip (from the two contracts and secretbox's correctness axiom) gives: what was added encrypted is returned unchanged with the same key.",
    note="Assumed (trusted, stubs/crypto.spec): correctness of secretbox (open(seal(m, n, k), n, k) = m) and io.ReadFull / crypto/rand as a stream. "
         "Not decidable by contracts (stated, not claimed): confidentiality (the plaintext does not appear in the ciphertext), authenticity against modification or a wrong key (that Open fails on them), "
         "and that two draws from the random source differ — these are the cryptographic content of secretbox and of the random source; what is proved is that the code hands them exactly the right inputs "
         "(a fresh draw per encryption as nonce, the unmodified stored nonce on reading, the authentication result is honoured).",
    design="DESIGN.md §3 C19, §7")

CLAIMED["C09"] = dict(
    text="Proof of absence of panics and of termination for go-ucan's own code on every decoder path: for the 62 functions on the paths from untrusted data "
         "(token / delegation / invocation decoders and unsealers, envelope.Inspect / FindTag / FromIPLD, tokenFromModel, OptionalTimestamp, ValidateIntegerBoundsIPLD, the container readers with the CAR framing "
         "(ldRead, readBlock, readHeader, readCar and its block iterator, addToken), policy.FromIPLD / statementFromIPLD / statementsFromIPLD, matchStatement / Match / PartialMatch / isOrdered / glob.Match / parseGlob, "
         "selector.Parse / tokenize / resolve / resolveSliceIndices / Select, did.Parse / DID.PubKey and the ECDSA / RSA key unmarshallers) every generated safety obligation is discharged for all inputs: "
         "index and slice bounds, nil dereference and nil interface / function calls, failed type assertions, explicit panics (including the 'should never happen' sites, proved unreachable), nil-map writes, make with a negative or oversized length, "
         "and the preconditions of panicking dependency calls (must.Int / must.String, x509.MarshalPKIXPublicKey on nil coordinates, binary.PutUvarint buffer size); every loop and every (mutual) recursion carries a decreasing measure bounded below. "
         "The CAR section length is proved to be capped at 32 MiB before allocation.",
    note="Assumed: the dependencies themselves do not panic, loop forever or allocate without bound (go-ipld-prime codecs and bindnode, go-cid, multibase, libp2p crypto, x509, secretbox — their internals are outside the verified text; "
         "where a dependency is known to panic on some input the stub carries a `requires` that is discharged); range-over-func iterators terminate; the reflection-based slow path of literal.Any is abstracted. "
         "Not decided (honest gap): the memory bound 'a constant plus a multiple of the input size' apart from the CAR section cap; stack depth of the recursive decoders (bounded by the dependency's own nesting limits, not by go-ucan).",
    design="DESIGN.md §3 C09, §7")

CLAIMED["C07"] = dict(
    text="Proof of the field-wise inverse between sealing and unsealing, modulo the trusted codec: toIPLD (delegation and invocation) is verified to hand the envelope exactly the model of the token — identifiers and command printed, "
         "time bounds as whole Unix seconds, optional fields nil exactly when unset, nonce / arguments / proofs / cause / metadata carried over, the policy node with one tuple per statement and its operator; "
         "tokenFromModel (both) is verified to read every field of a model back (identifiers through did.Parse, command through command.Parse, seconds through OptionalTimestamp: instant = seconds x 10^9) and to accept every model made of "
         "parseable identifiers, a valid command, a decodable policy, a nonce of >= 12 bytes and time bounds in the safe range; the constructors (New, Root, validate) are verified to accept only tokens whose command the decoder accepts and whose "
         "time bounds lie in that range. Together with the lemma text_roundtrip of C16 (printing then parsing a DID gives it back, for every generatable key code), command.Parse(s) = s for valid s (C15) and the seconds contract (C04), "
         "substituting the model of toIPLD into tokenFromModel gives back every field of the original token at whole-second resolution; the generic decoders return a token only through the typed ones (C06). "
         "No spurious rejection: envelope.Inspect and the typed FromIPLD (delegation, invocation) are verified complete — an envelope whose every stage is acceptable (shape, tag, schema-typed payload, parseable issuer with an extractable key, "
         "announced header of that key's type, encodable signed part, verifying signature) and whose model is acceptable is decoded — over named verdict functions of the dependencies. "
         "envelope.ToIPLD is verified (map / list builder model) to build exactly such an envelope: [signature, {h: varsig header of the key's type, tag: wrapped payload}] with the signature made over the DAG-CBOR encoding of the signed part; "
         "lemma sealed_acceptable proves that it passes the envelope stage of FromIPLD under explicit hypotheses (the typed builder accepts the wrapped payload again, its iss entry parses to a DID whose key is the signing key's public key).",
    note="Assumed (trusted): bindnode wrap/unwrap and the DAG-CBOR / DAG-JSON codecs round-trip the model (the model an envelope was built from is named by an assumed post-condition of envelope.ToIPLD); a signature made by a private key verifies under its public key, for every key algorithm "
         "(the codec x key-algorithm matrix beyond go-ucan's own code is outside the verified text). The model-level substitution step (composing toIPLD's model contract with tokenFromModel's) is an argument on paper, not a machine-checked lemma: "
         "the model contains pointers, and lemmas are heap-free. Deep equality of policy leaf values and of metadata / argument values after the round trip rests on the codec assumption.",
    design="DESIGN.md §3 C07, §7")
