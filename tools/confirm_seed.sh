#!/bin/bash
# usage: confirm_seed.sh <name> <patch.diff> <demo_test.go> <dest path of demo relative to repo root>
# Confirms in a scratch worktree: patch applies, builds, existing suite passes, demo fails with / passes without.
set -u
name=$1; patch=$2; demo=$3; dest=$4
export GOFLAGS=-mod=readonly GOPROXY=off GOSUMDB=off GOTOOLCHAIN=local
wt=/tmp/cs-$name
git -C /repo worktree remove --force $wt 2>/dev/null
git -C /repo worktree add -q --detach $wt HEAD || exit 2
cd $wt
git apply $patch || { echo "PATCH DOES NOT APPLY"; exit 2; }
go build ./... || { echo "BUILD FAILS"; exit 2; }
cp $demo $wt/$dest
pkg=./$(dirname $dest)
echo "--- suite with patch (demo skipped):"
go test -vet=off -count=1 -skip '^TestSeeded' ./... 2>&1 | grep -v '^ok\|no test files' ; echo "suite rc=${PIPESTATUS[0]}"
echo "--- demo with patch (must FAIL):"
go test -vet=off -count=1 -run '^TestSeeded' $pkg 2>&1 | tail -3
git apply -R $patch
echo "--- demo without patch (must PASS):"
go test -vet=off -count=1 -run '^TestSeeded' $pkg 2>&1 | tail -3
cd /; git -C /repo worktree remove --force $wt
