#!/bin/bash
# runs the quick check of every claimed property; prints one line per property
cd /verif
ids=$(python3 -c "import json;print(' '.join(c['property_id'] for c in json.load(open('MANIFEST.json'))['checks']))")
rc=0
for id in $ids $@; do
  out=$(bin/govc check $id 2>&1); r=$?
  echo "$out" | grep -E "^(VIOLATION|KNOWN|$id:|govc:)" | cut -c1-200
  if [ $r -ne 0 ]; then rc=1; echo "  ($id: exit status $r)"; fi
done
exit $rc
