#!/bin/bash
# usage: take_seed.sh <agent seed dir, e.g. /tmp/seed-C08/SEED-a> <name, e.g. C08-b> <property ids to run...>
# copies the seed under /verif/seeded/<name>, confirms it in a scratch worktree, runs the checks against it.
src=$1; name=$2; shift 2
dst=/verif/seeded/$name
mkdir -p $dst
cp $src/patch.diff $dst/patch.diff
cp $src/demo_test.go $dst/demo_test.go.txt
cp $src/notes.txt $dst/notes.txt 2>/dev/null
dest=$(head -1 $src/demo_test.go | sed -n 's,^// dest: *,,p' | tr -d ' \r')
echo "dest=$dest"
cp $src/demo_test.go /tmp/demo-$name.go
/verif/tools/confirm_seed.sh $name $dst/patch.diff /tmp/demo-$name.go $dest 2>&1 | tee $dst/confirm.log | tail -12
rm -f /tmp/demo-$name.go
/verif/tools/run_seed.sh $dst "$@" 2>&1 | grep -E "^(VIOLATION|  obligation|KNOWN|rc\[|C[0-9]+:)" | cut -c1-230 | tee $dst/check.log
