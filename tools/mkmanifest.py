#!/usr/bin/env python3
"""Regenerates /verif/MANIFEST.json from the table below (kept in one place so it stays valid)."""
import json, sys, os

ROOT = "/verif"
SETUP = "cd /verif/govc && GOFLAGS=-mod=mod GOPROXY=off GOSUMDB=off GOTOOLCHAIN=local go build -o /verif/bin/govc ./cmd/govc"

COMMON_NOTE = ("Trusted: the VC generator itself (govc, /verif/govc), the SMT solvers, go/ssa's translation of the source, "
               "and the assumed contracts on dependencies in /verif/stubs/*.spec that the evidence file lists under trusted_base. "
               "Integers are mathematical with exact wrap-around; allocation never fails; no goroutines in the verified code.")

# id -> dict(text=..., note=..., technique=..., design=...)  for claimed properties
CLAIMED = {}
# id -> reason for properties not claimed
NOT_APPLICABLE = {}

exec(open(os.path.join(ROOT, "tools", "manifest_table.py")).read())
# hook commits: every commit in /repo whose subject starts with "verif:" (comment-only contract files)
import subprocess
HOOK_COMMITS = [l.split()[0] for l in subprocess.run(["git", "-C", "/repo", "log", "--reverse", "--format=%h %s"], capture_output=True, text=True).stdout.splitlines() if l.split(" ", 1)[1].startswith("verif:")]

props = [json.loads(l)["id"] for l in open(os.path.join(ROOT, "properties.jsonl"))]
checks = []
for pid in props:
    if pid in CLAIMED:
        c = CLAIMED[pid]
        checks.append({
            "property_id": pid,
            "quick_cmd": f"/verif/bin/govc check --tier quick {pid}",
            "thorough_cmd": f"/verif/bin/govc check --tier thorough {pid}",
            "evidence_file": f"/verif/evidence/{pid}.json",
            "replay_cmd_template": "/verif/bin/govc replay {path}",
            "engine": "govc",
            "level_claimed": {"category": c.get("category", "proof"), "text": c["text"], "design_ref": c.get("design", "DESIGN.md §3")},
            "level_note": c.get("note", "") + " " + COMMON_NOTE,
            "technique": c.get("technique", "contract-based deductive verification: VCs generated from go/ssa of the real code against //@ contracts, discharged by z3/cvc5"),
        })
na = [{"property_id": pid, "reason": NOT_APPLICABLE.get(pid, "no check registered yet")} for pid in props if pid not in CLAIMED]
manifest = {
    "version": 1,
    "setup_cmd": SETUP,
    "hooks": {
        "guard": "verif",
        "enable": "go/packages BuildFlags -tags=verif; the hook files /repo/**/zz_contracts_verif.go are comment-only (//@ contract lines) and add no code",
        "baseline_off_cmd": "cd /repo && GOFLAGS=-mod=readonly GOPROXY=off GOSUMDB=off go test -json -vet=off -count=1 -timeout 25m ./...",
        "source_commits": HOOK_COMMITS,
        "add_only": True,
    },
    "engines": [{"name": "govc", "path": "/verif/govc", "serves_properties": sorted(CLAIMED), "kind_free_text":
                 "own verification-condition generator over go/ssa (x/tools v0.29.0) with Gobra-style //@ contracts kept in build-tag-guarded comment-only files inside /repo; obligations discharged by a z3-new/cvc5/z3 portfolio; C15 additionally re-checks two Lean 4 list lemmas (lemmas/Seg.lean) on every run"}],
    "checks": checks,
    "not_applicable": na,
    "notes": "See DESIGN.md. claims.json lists the contract-clause obligations each check must regenerate and discharge; known_findings.json lists recorded/fixed defects.",
}
json.dump(manifest, open(os.path.join(ROOT, "MANIFEST.json"), "w"), indent=1)
print("wrote MANIFEST.json:", len(checks), "checks,", len(na), "not_applicable")
