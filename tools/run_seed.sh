#!/bin/bash
# usage: run_seed.sh <seed dir> <property ids...>
# Applies the seed to a scratch worktree of /repo's HEAD (so that checks running against /repo itself are not disturbed),
# runs the checks against it (VERIF_REPO), removes the worktree.  Evidence written by these runs goes to a scratch root.
d=$(realpath $1); shift
wt=/tmp/rs-$(basename $d)-$$
root=/tmp/rsroot-$(basename $d)-$$
git -C /repo worktree add -q --detach $wt HEAD || exit 2
git -C $wt apply $d/patch.diff || { git -C /repo worktree remove --force $wt; exit 2; }
mkdir -p $root; for f in stubs claims.json known_findings.json replay selftest lemmas properties.jsonl; do ln -s /verif/$f $root/$f; done
mkdir -p $root/evidence $root/replays
for id in "$@"; do VERIF_REPO=$wt VERIF_ROOT=$root /verif/bin/govc check $id; echo "rc[$id]=$?"; done
cd /; git -C /repo worktree remove --force $wt; rm -rf $root
