#!/bin/bash
# usage: run_seed.sh <seed dir> <property ids...> : applies the seed to /repo, runs the checks, reverts.
d=$1; shift
if [ -n "$(git -C /repo status --porcelain)" ]; then echo "/repo not clean; refusing"; exit 2; fi
git -C /repo apply $(realpath $d)/patch.diff || exit 2
for id in "$@"; do /verif/bin/govc check $id; echo "rc[$id]=$?"; done
git -C /repo checkout -- . 
git -C /repo status --porcelain
