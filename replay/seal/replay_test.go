package delegation

// Replay harness for C08 / C18 on single tokens (injected with `go test -overlay`; nothing is written to /repo).
// Oracles (restated from the property text):
//   stream-read   FromSealedReader over any chunking of the sealed bytes (whole, 1-byte reads, data-with-EOF reads) gives the
//                 CID that FromSealed / ToSealed report for the same bytes; a read fault or early EOF at any offset gives an error
//   stream-write  ToSealedWriter writes the bytes and reports the CID of ToSealed; a sink failing at any Write gives an error
//   cid           the CID is CIDv1 / dag-cbor / sha2-256 of the sealed bytes

import (
	"bytes"
	"crypto/rand"
	"crypto/sha256"
	"encoding/json"
	"errors"
	"fmt"
	"io"
	"os"
	"testing"
	"testing/iotest"
	"time"

	"github.com/ipfs/go-cid"
	"github.com/libp2p/go-libp2p/core/crypto"
	mh "github.com/multiformats/go-multihash"

	"github.com/ucan-wg/go-ucan/did"
	"github.com/ucan-wg/go-ucan/pkg/command"
	"github.com/ucan-wg/go-ucan/pkg/policy"
)

type sealCase struct {
	Kind string `json:"kind"`
	Meta int    `json:"meta"`
}

type cutR struct {
	r    io.Reader
	left int
	err  error
}

func (c *cutR) Read(p []byte) (int, error) {
	if c.left == 0 {
		return 0, c.err
	}
	if len(p) > c.left {
		p = p[:c.left]
	}
	n, err := c.r.Read(p)
	c.left -= n
	return n, err
}

type failW struct {
	w    io.Writer
	k, n int
}

func (f *failW) Write(p []byte) (int, error) {
	f.n++
	if f.n == f.k {
		return 0, errors.New("injected write fault")
	}
	return f.w.Write(p)
}

func TestVerifReplay(t *testing.T) {
	path := os.Getenv("VERIF_WITNESS")
	if path == "" {
		t.Skip("no witness")
	}
	raw, err := os.ReadFile(path)
	if err != nil {
		t.Fatal(err)
	}
	var cases []sealCase
	if err := json.Unmarshal(raw, &cases); err != nil {
		t.Fatal(err)
	}
	for _, tc := range cases {
		js, _ := json.Marshal(tc)
		priv, _, _ := crypto.GenerateEd25519Key(rand.Reader)
		iss, _ := did.FromPrivKey(priv)
		_, audPub, _ := crypto.GenerateEd25519Key(rand.Reader)
		aud, _ := did.FromPubKey(audPub)
		opts := []Option{WithExpiration(time.Now().Add(time.Hour))}
		for i := 0; i < tc.Meta; i++ {
			opts = append(opts, WithMeta(fmt.Sprintf("k%d", i), "v"))
		}
		tkn, err := Root(iss, aud, command.New("foo"), policy.Policy{}, opts...)
		if err != nil {
			t.Fatal(err)
		}
		data, id, err := tkn.ToSealed(priv)
		if err != nil {
			t.Fatal(err)
		}
		sum := sha256.Sum256(data)
		mhb, _ := mh.Encode(sum[:], mh.SHA2_256)
		want := cid.NewCidV1(0x71, mhb)
		switch tc.Kind {
		case "cid":
			_, id2, err2 := FromSealed(data)
			if !id.Equals(want) || err2 != nil || !id2.Equals(want) {
				fmt.Printf("REPLAY-CONFIRMED direction=any the reported CID is not CIDv1/dag-cbor/sha2-256 of the sealed bytes: seal %s unseal %s (%v) want %s; witness=%s\n", id, id2, err2, want, js)
			} else {
				fmt.Printf("REPLAY-AGREES cid %s\n", js)
			}
		case "stream-read":
			readers := map[string]func() io.Reader{
				"whole":         func() io.Reader { return bytes.NewReader(data) },
				"one-byte":      func() io.Reader { return iotest.OneByteReader(bytes.NewReader(data)) },
				"data-with-eof": func() io.Reader { return iotest.DataErrReader(bytes.NewReader(data)) },
				"half":          func() io.Reader { return iotest.HalfReader(bytes.NewReader(data)) },
			}
			bad := 0
			for name, mk := range readers {
				_, got, err := FromSealedReader(mk())
				if err != nil || !got.Equals(want) {
					bad++
					fmt.Printf("REPLAY-CONFIRMED direction=any FromSealedReader over a %s reader gives CID %s (%v), the buffered API gives %s; witness=%s\n", name, got, err, want, js)
				}
			}
			for o := 0; o < len(data); o++ {
				for _, e := range []error{io.EOF, errors.New("injected read fault")} {
					if _, got, err := FromSealedReader(&cutR{r: bytes.NewReader(data), left: o, err: e}); err == nil {
						bad++
						if bad < 6 {
							fmt.Printf("REPLAY-CONFIRMED direction=any source stopped with %v at offset %d of %d but FromSealedReader returned a token and CID %s; witness=%s\n", e, o, len(data), got, js)
						}
					}
				}
			}
			if bad == 0 {
				fmt.Printf("REPLAY-AGREES stream-read %s\n", js)
			}
		case "stream-write":
			var buf bytes.Buffer
			got, err := tkn.ToSealedWriter(&buf, priv)
			bad := 0
			if err != nil || !got.Equals(want) || !bytes.Equal(buf.Bytes(), data) {
				bad++
				fmt.Printf("REPLAY-CONFIRMED direction=any ToSealedWriter differs from ToSealed: cid %s vs %s, same bytes %v (%v); witness=%s\n", got, want, bytes.Equal(buf.Bytes(), data), err, js)
			}
			cnt := &failW{w: io.Discard, k: -1}
			_, _ = tkn.ToSealedWriter(cnt, priv)
			for k := 1; k <= cnt.n; k++ {
				if got, err := tkn.ToSealedWriter(&failW{w: io.Discard, k: k}, priv); err == nil {
					bad++
					fmt.Printf("REPLAY-CONFIRMED direction=any sink failed at Write #%d of %d but ToSealedWriter returned CID %s and no error; witness=%s\n", k, cnt.n, got, js)
				}
			}
			if bad == 0 {
				fmt.Printf("REPLAY-AGREES stream-write (%d writes) %s\n", cnt.n, js)
			}
		}
	}
}
