package invocation_test

// Replay harness for C20 (injected with `go test -overlay`; never written to /repo).
// Builds tokens whose argument / metadata keys are inserted in the witness order, runs each
// read-only operation and compares an observable snapshot (iteration order of keys and printed values,
// accessor results) taken before and after the operation.

import (
	"encoding/json"
	"fmt"
	"os"
	"testing"

	"github.com/ipfs/go-cid"

	"github.com/ucan-wg/go-ucan/did/didtest"
	"github.com/ucan-wg/go-ucan/pkg/command"
	"github.com/ucan-wg/go-ucan/pkg/policy"
	"github.com/ucan-wg/go-ucan/token/delegation"
	"github.com/ucan-wg/go-ucan/token/invocation"
)

type immutWitness struct {
	ArgKeys  []string `json:"arg_keys"`
	MetaKeys []string `json:"meta_keys"`
}

type mapLoader2 map[cid.Cid]*delegation.Token

func (m mapLoader2) GetDelegation(c cid.Cid) (*delegation.Token, error) {
	if t, ok := m[c]; ok {
		return t, nil
	}
	return nil, delegation.ErrDelegationNotFound
}

func snapshot(inv *invocation.Token, dlg *delegation.Token) string {
	s := ""
	for k, v := range inv.Arguments().Iter() {
		s += fmt.Sprintf("arg %s=%v;", k, v)
	}
	for k, v := range inv.Meta().Iter() {
		s += fmt.Sprintf("meta %s=%v;", k, v)
	}
	for k, v := range dlg.Meta().Iter() {
		s += fmt.Sprintf("dmeta %s=%v;", k, v)
	}
	s += fmt.Sprintf("%v|%v|%v|%v|%x|%v", inv.Issuer(), inv.Subject(), inv.Audience(), inv.Command(), inv.Nonce(), inv.Proof())
	s += fmt.Sprintf("%v|%v|%v|%v|%x", dlg.Issuer(), dlg.Subject(), dlg.Audience(), dlg.Command(), dlg.Nonce())
	return s
}

func TestVerifReplay(t *testing.T) {
	path := os.Getenv("VERIF_WITNESS")
	if path == "" {
		t.Skip("no witness")
	}
	raw, err := os.ReadFile(path)
	if err != nil {
		t.Fatal(err)
	}
	var ws []immutWitness
	if err := json.Unmarshal(raw, &ws); err != nil {
		t.Fatal(err)
	}
	alice, bob := didtest.PersonaAlice, didtest.PersonaBob
	for _, w := range ws {
		var dopts []delegation.Option
		for _, k := range w.MetaKeys {
			dopts = append(dopts, delegation.WithMeta(k, "v-"+k))
		}
		dlg, err := delegation.Root(alice.DID(), bob.DID(), command.MustParse("/foo"), policy.Policy{}, dopts...)
		if err != nil {
			t.Fatal(err)
		}
		_, c, err := dlg.ToSealed(alice.PrivKey())
		if err != nil {
			t.Fatal(err)
		}
		var iopts []invocation.Option
		for _, k := range w.ArgKeys {
			iopts = append(iopts, invocation.WithArgument(k, "v-"+k))
		}
		for _, k := range w.MetaKeys {
			iopts = append(iopts, invocation.WithMeta(k, "v-"+k))
		}
		inv, err := invocation.New(bob.DID(), alice.DID(), command.MustParse("/foo"), []cid.Cid{c}, iopts...)
		if err != nil {
			t.Fatal(err)
		}
		loader := mapLoader2{c: dlg}
		ops := []struct {
			name string
			run  func()
		}{
			{"ExecutionAllowed", func() { _ = inv.ExecutionAllowed(loader) }},
			{"invocation.ToSealed", func() { _, _, _ = inv.ToSealed(bob.PrivKey()) }},
			{"delegation.ToSealed", func() { _, _, _ = dlg.ToSealed(alice.PrivKey()) }},
			{"Arguments.String", func() { _ = inv.Arguments().String() }},
			{"Arguments.ToIPLD", func() { _, _ = inv.Arguments().ToIPLD() }},
			{"Arguments.Equals", func() { _ = inv.Arguments().Equals(inv.Arguments()) }},
			{"invocation.Meta.String", func() { _ = inv.Meta().String() }},
			{"delegation.Meta.String", func() { _ = dlg.Meta().String() }},
			{"IsValidNow", func() { _ = inv.IsValidNow(); _ = dlg.IsValidNow() }},
		}
		js, _ := json.Marshal(w)
		for _, op := range ops {
			before := snapshot(inv, dlg)
			op.run()
			after := snapshot(inv, dlg)
			if before != after {
				fmt.Printf("REPLAY-CONFIRMED direction=any op=%s changed the token; witness=%s before=%q after=%q\n", op.name, js, before, after)
				// restore nothing: later operations are checked against the new state
			} else {
				fmt.Printf("REPLAY-AGREES op=%s witness=%s\n", op.name, js)
			}
		}
	}
}
