package selector

// Replay harness for C12 / C14 (injected with `go test -overlay`; nothing is written to /repo).
// Oracle for C12 (restated from the property text, independent of the contracts): resolving a selector equals resolving its
// segments one after the other — the result of Select on the whole selector is compared with the fold of Select over the
// one-segment selectors, starting from the subject, where an error stops the fold and "no value" (nil) is carried on.
// Oracle for C14: a selector text is either rejected or interpreted in full: re-printing the parsed selector gives back the
// whole text, and every piece of the text belongs to a segment.

import (
	"encoding/json"
	"fmt"
	"os"
	"strings"
	"testing"

	"github.com/ipld/go-ipld-prime"
	"github.com/ipld/go-ipld-prime/codec/dagjson"
	"github.com/ipld/go-ipld-prime/datamodel"
	"github.com/ipld/go-ipld-prime/printer"
)

type selCase struct {
	Kind string `json:"kind"` // fold | parse
	Sel  string `json:"sel"`
	Data string `json:"data"` // DAG-JSON
}

func show(n datamodel.Node, err error) string {
	if err != nil {
		return "error"
	}
	if n == nil {
		return "no-value"
	}
	return strings.ReplaceAll(printer.Sprint(n), "\n", " ")
}

func TestVerifReplay(t *testing.T) {
	path := os.Getenv("VERIF_WITNESS")
	if path == "" {
		t.Skip("no witness")
	}
	raw, err := os.ReadFile(path)
	if err != nil {
		t.Fatal(err)
	}
	var cases []selCase
	if err := json.Unmarshal(raw, &cases); err != nil {
		t.Fatal(err)
	}
	for _, tc := range cases {
		js, _ := json.Marshal(tc)
		func() {
			defer func() {
				if r := recover(); r != nil {
					fmt.Printf("REPLAY-CONFIRMED direction=any panic: %v; witness=%s\n", r, js)
				}
			}()
			sel, err := Parse(tc.Sel)
			switch tc.Kind {
			case "parse":
				if err != nil {
					fmt.Printf("REPLAY-AGREES rejected %s\n", js)
					return
				}
				if sel.String() != tc.Sel {
					fmt.Printf("REPLAY-CONFIRMED direction=any selector text %q was accepted but only %q of it was interpreted (the rest was dropped); witness=%s\n", tc.Sel, sel.String(), js)
					return
				}
				for _, seg := range sel {
					if seg.field == "" && !seg.identity && !seg.iterator && len(seg.slice) == 0 && strings.Contains(seg.str, "\"") {
						fmt.Printf("REPLAY-CONFIRMED direction=any the quoted field segment %q is interpreted as index %d; witness=%s\n", seg.str, seg.index, js)
						return
					}
				}
				fmt.Printf("REPLAY-AGREES interpreted in full %s\n", js)
			case "fold":
				if err != nil {
					fmt.Printf("REPLAY-SKIP does not parse %s\n", js)
					return
				}
				var subject datamodel.Node
				if tc.Data != "" {
					subject, err = ipld.Decode([]byte(tc.Data), dagjson.Decode)
					if err != nil {
						fmt.Printf("REPLAY-SKIP bad data %s\n", js)
						return
					}
				}
				got, gerr := sel.Select(subject)
				cur := subject
				var ferr error
				for _, seg := range sel {
					cur, ferr = Selector{seg}.Select(cur)
					if ferr != nil {
						cur = nil
						break
					}
				}
				if show(got, gerr) != show(cur, ferr) {
					fmt.Printf("REPLAY-CONFIRMED direction=any Select(%s) on %s gives %s but resolving its segments one after the other gives %s; witness=%s\n", tc.Sel, tc.Data, show(got, gerr), show(cur, ferr), js)
				} else {
					fmt.Printf("REPLAY-AGREES %s -> %s\n", js, show(got, gerr))
				}
			}
		}()
	}
}
