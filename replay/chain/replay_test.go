package invocation_test

// Replay harness for C01/C02/C04/C05 (injected with `go test -overlay`; never written to /repo).
// It builds real tokens from a witness, runs the real ExecutionAllowed and compares the result with an
// executable restatement of the property sentence (the oracle), independent of the contracts.

import (
	"encoding/json"
	"fmt"
	"os"
	"strings"
	"testing"
	"time"

	"github.com/ipfs/go-cid"

	"github.com/ucan-wg/go-ucan/did"
	"github.com/ucan-wg/go-ucan/did/didtest"
	"github.com/ucan-wg/go-ucan/pkg/command"
	"github.com/ucan-wg/go-ucan/pkg/policy"
	"github.com/ucan-wg/go-ucan/token/delegation"
	"github.com/ucan-wg/go-ucan/token/invocation"
)

type wTok struct {
	Iss int    `json:"iss"`
	Aud int    `json:"aud"` // -1: undefined
	Sub int    `json:"sub"` // -1: undefined
	Cmd string `json:"cmd"`
	Exp *int64 `json:"exp,omitempty"` // seconds relative to now
	Nbf *int64 `json:"nbf,omitempty"`
}

type witness struct {
	Name    string `json:"name"`
	Inv     wTok   `json:"inv"`
	Dlgs    []wTok `json:"dlgs"`
	Missing []int  `json:"missing,omitempty"` // indexes of delegations the loader does not have
}

type mapLoader map[cid.Cid]*delegation.Token

func (m mapLoader) GetDelegation(c cid.Cid) (*delegation.Token, error) {
	if t, ok := m[c]; ok {
		return t, nil
	}
	return nil, delegation.ErrDelegationNotFound
}

func persona(i int) did.DID {
	if i < 0 {
		return did.Undef
	}
	return didtest.Persona(i % 6).DID()
}

func covers(a, b string) bool { // segment-prefix order, computed with strings.Split
	if a == "/" {
		return true
	}
	as, bs := strings.Split(a, "/")[1:], strings.Split(b, "/")[1:]
	if b == "/" {
		bs = nil
	}
	if len(as) > len(bs) {
		return false
	}
	for i := range as {
		if as[i] != bs[i] {
			return false
		}
	}
	return true
}

func validAt(exp, nbf *int64) (strictInside, strictOutside bool) {
	in, out := true, false
	if exp != nil {
		if *exp <= 0 {
			in = false
		}
		if *exp < 0 {
			out = true
		}
	}
	if nbf != nil {
		if *nbf >= 0 {
			in = false
		}
		if *nbf > 0 {
			out = true
		}
	}
	return in, out
}

func TestVerifReplay(t *testing.T) {
	path := os.Getenv("VERIF_WITNESS")
	if path == "" {
		t.Skip("no witness")
	}
	raw, err := os.ReadFile(path)
	if err != nil {
		t.Fatal(err)
	}
	var ws []witness
	if err := json.Unmarshal(raw, &ws); err != nil {
		t.Fatal(err)
	}
	now := time.Now()
	for _, w := range ws {
		loader := mapLoader{}
		var prf []cid.Cid
		rulesOK := len(w.Dlgs) >= 1
		timeIn, timeOut := true, false
		miss := map[int]bool{}
		for _, m := range w.Missing {
			miss[m] = true
		}
		buildErr := false
		for i, d := range w.Dlgs {
			cmd := command.Command(d.Cmd)
			var opts []delegation.Option
			if d.Sub >= 0 {
				opts = append(opts, delegation.WithSubject(persona(d.Sub)))
			}
			if d.Exp != nil {
				opts = append(opts, delegation.WithExpiration(now.Add(time.Duration(*d.Exp)*time.Second)))
			}
			if d.Nbf != nil {
				opts = append(opts, delegation.WithNotBefore(now.Add(time.Duration(*d.Nbf)*time.Second)))
			}
			tk, err := delegation.New(persona(d.Iss), persona(d.Aud), cmd, policy.Policy{}, opts...)
			if err != nil {
				buildErr = true
				break
			}
			_, c, err := tk.ToSealed(didtest.Persona(d.Iss % 6).PrivKey())
			if err != nil {
				buildErr = true
				break
			}
			prf = append(prf, c)
			if !miss[i] {
				loader[c] = tk
			} else {
				rulesOK = false
			}
			// the property sentence, link by link
			if d.Sub != w.Inv.Sub {
				rulesOK = false
			}
			wantAud := w.Inv.Iss
			prevCmd := w.Inv.Cmd
			if i > 0 {
				wantAud = w.Dlgs[i-1].Iss
				prevCmd = w.Dlgs[i-1].Cmd
			}
			if d.Aud != wantAud || !covers(d.Cmd, prevCmd) {
				rulesOK = false
			}
			if i == len(w.Dlgs)-1 && d.Iss != d.Sub {
				rulesOK = false
			}
			in, out := validAt(d.Exp, d.Nbf)
			timeIn = timeIn && in
			timeOut = timeOut || out
		}
		if buildErr {
			fmt.Printf("REPLAY-SKIPPED name=%s (tokens of the witness cannot be constructed)\n", w.Name)
			continue
		}
		var iopts []invocation.Option
		if w.Inv.Aud >= 0 {
			iopts = append(iopts, invocation.WithAudience(persona(w.Inv.Aud)))
		}
		if w.Inv.Exp != nil {
			iopts = append(iopts, invocation.WithExpiration(now.Add(time.Duration(*w.Inv.Exp)*time.Second)))
		}
		in, out := validAt(w.Inv.Exp, nil)
		timeIn = timeIn && in
		timeOut = timeOut || out
		inv, err := invocation.New(persona(w.Inv.Iss), persona(w.Inv.Sub), command.Command(w.Inv.Cmd), prf, iopts...)
		if err != nil {
			fmt.Printf("REPLAY-SKIPPED name=%s (%v)\n", w.Name, err)
			continue
		}
		got := inv.ExecutionAllowed(loader)
		allowed := got == nil
		js, _ := json.Marshal(w)
		switch {
		case allowed && (!rulesOK || timeOut):
			fmt.Printf("REPLAY-CONFIRMED direction=soundness name=%s: allowed although the delegation rules are violated; witness=%s\n", w.Name, js)
		case !allowed && rulesOK && timeIn:
			fmt.Printf("REPLAY-CONFIRMED direction=completeness name=%s: denied (%v) although every rule holds; witness=%s\n", w.Name, got, js)
		default:
			fmt.Printf("REPLAY-AGREES name=%s allowed=%v\n", w.Name, allowed)
		}
	}
}
