package policy

// Replay harness for C13 (injected with `go test -overlay`; never written to /repo).
// Oracle: a direct recursive reading of the glob language, independent of the contracts.

import (
	"encoding/json"
	"fmt"
	"os"
	"testing"
)

type globWitness struct {
	Pattern string `json:"pattern"`
	Str     string `json:"str"`
}

func globOracle(p, s string) bool {
	if len(p) == 0 {
		return len(s) == 0
	}
	switch {
	case p[0] == '*':
		for k := 0; k <= len(s); k++ {
			if globOracle(p[1:], s[k:]) {
				return true
			}
		}
		return false
	case p[0] == '\\' && len(p) > 1:
		return len(s) > 0 && s[0] == p[1] && globOracle(p[2:], s[1:])
	default:
		return len(s) > 0 && s[0] == p[0] && globOracle(p[1:], s[1:])
	}
}

func TestVerifReplay(t *testing.T) {
	path := os.Getenv("VERIF_WITNESS")
	if path == "" {
		t.Skip("no witness")
	}
	raw, err := os.ReadFile(path)
	if err != nil {
		t.Fatal(err)
	}
	var ws []globWitness
	if err := json.Unmarshal(raw, &ws); err != nil {
		t.Fatal(err)
	}
	for _, w := range ws {
		g, err := parseGlob(w.Pattern)
		if err != nil {
			fmt.Printf("REPLAY-SKIPPED pattern=%q rejected by parseGlob\n", w.Pattern)
			continue
		}
		got, want := g.Match(w.Str), globOracle(w.Pattern, w.Str)
		js, _ := json.Marshal(w)
		if got != want {
			fmt.Printf("REPLAY-CONFIRMED direction=any Match=%v but the pattern language says %v; witness=%s\n", got, want, js)
		} else {
			fmt.Printf("REPLAY-AGREES %s -> %v\n", js, got)
		}
	}
}
