package policy

// Replay harness for C11 (injected with `go test -overlay`; nothing is written to /repo).
// Oracles (restated from the property text, independent of the contracts), for a policy P (DAG-JSON) and data D (DAG-JSON):
//   order     reversing the operands of every and / or (and the policy's own statements) changes neither Match nor PartialMatch
//   mono      for statements X, Y: if Match([and[X]]) fails then Match([and[X, Y]]) and Match([and[Y, X]]) fail; same for PartialMatch
//   partial   Match(P, D) implies PartialMatch(P, D)
//   concat    Match(P ++ Q) == Match(P) && Match(Q)   (P, Q: the two halves of the policy)

import (
	"encoding/json"
	"fmt"
	"os"
	"testing"

	"github.com/ipld/go-ipld-prime"
	"github.com/ipld/go-ipld-prime/codec/dagjson"
)

type polCase struct {
	Kind   string `json:"kind"`
	Policy string `json:"policy"`
	Data   string `json:"data"`
}

func reverseStmt(s Statement) Statement {
	switch x := s.(type) {
	case connective:
		n := len(x.statements)
		out := make([]Statement, n)
		for i, c := range x.statements {
			out[n-1-i] = reverseStmt(c)
		}
		return connective{kind: x.kind, statements: out}
	case negation:
		return negation{statement: reverseStmt(x.statement)}
	case quantifier:
		return quantifier{kind: x.kind, selector: x.selector, statement: reverseStmt(x.statement)}
	}
	return s
}

func reversePolicy(p Policy) Policy {
	n := len(p)
	out := make(Policy, n)
	for i, s := range p {
		out[n-1-i] = reverseStmt(s)
	}
	return out
}

func TestVerifReplay(t *testing.T) {
	path := os.Getenv("VERIF_WITNESS")
	if path == "" {
		t.Skip("no witness")
	}
	raw, err := os.ReadFile(path)
	if err != nil {
		t.Fatal(err)
	}
	var cases []polCase
	if err := json.Unmarshal(raw, &cases); err != nil {
		t.Fatal(err)
	}
	for _, tc := range cases {
		js, _ := json.Marshal(tc)
		func() {
			defer func() {
				if r := recover(); r != nil {
					fmt.Printf("REPLAY-CONFIRMED direction=any panic: %v; witness=%s\n", r, js)
				}
			}()
			p, err := FromDagJson(tc.Policy)
			if err != nil {
				fmt.Printf("REPLAY-SKIP policy rejected %s\n", js)
				return
			}
			d, err := ipld.Decode([]byte(tc.Data), dagjson.Decode)
			if err != nil {
				fmt.Printf("REPLAY-SKIP bad data %s\n", js)
				return
			}
			m, _ := p.Match(d)
			pm, _ := p.PartialMatch(d)
			bad := false
			switch tc.Kind {
			case "order":
				r := reversePolicy(p)
				m2, _ := r.Match(d)
				pm2, _ := r.PartialMatch(d)
				if m != m2 || pm != pm2 {
					bad = true
					fmt.Printf("REPLAY-CONFIRMED direction=any the outcome depends on operand order: Match %v / PartialMatch %v, with every operand list reversed Match %v / PartialMatch %v; witness=%s\n", m, pm, m2, pm2, js)
				}
			case "mono":
				if len(p) == 2 {
					x, y := p[0], p[1]
					for _, f := range []func(Policy) bool{func(q Policy) bool { r, _ := q.Match(d); return r }, func(q Policy) bool { r, _ := q.PartialMatch(d); return r }} {
						if !f(Policy{connective{kind: KindAnd, statements: []Statement{x}}}) {
							if f(Policy{connective{kind: KindAnd, statements: []Statement{x, y}}}) || f(Policy{connective{kind: KindAnd, statements: []Statement{y, x}}}) {
								bad = true
								fmt.Printf("REPLAY-CONFIRMED direction=any adding an operand to a failing `and` makes it pass; witness=%s\n", js)
							}
						}
					}
				}
			case "partial":
				if m && !pm {
					bad = true
					fmt.Printf("REPLAY-CONFIRMED direction=any full match without partial match; witness=%s\n", js)
				}
			case "concat":
				h := len(p) / 2
				m1, _ := p[:h].Match(d)
				m2, _ := p[h:].Match(d)
				if m != (m1 && m2) {
					bad = true
					fmt.Printf("REPLAY-CONFIRMED direction=any Match(P++Q)=%v but Match(P)=%v, Match(Q)=%v; witness=%s\n", m, m1, m2, js)
				}
			}
			if !bad {
				fmt.Printf("REPLAY-AGREES %s\n", js)
			}
		}()
	}
}
