package container

// Replay harness for C17 / C18 (injected with `go test -overlay`; nothing is written to /repo).
// Oracles (restated from the property text, independent of the contracts):
//   roundtrip   reading what was written yields exactly the tokens added, under the CIDs of their sealed bytes,
//               for every format x {bytes, stream} writer x {bytes, stream} reader
//   wfault      a sink that fails at its k-th Write (for every k, including the final flush) makes the writer return an error
//   rfault      a source that fails or ends early at byte offset o (every o) makes the reader return an error
//               (CAR cut exactly between two blocks is the documented exception)
//   huge        ldWrite never panics, whatever the total size of the sections

import (
	"bytes"
	"encoding/base64"
	"encoding/binary"
	"encoding/json"
	"errors"
	"fmt"
	"io"
	"os"
	"testing"

	"github.com/ipfs/go-cid"
)

type ctnCase struct {
	Kind   string `json:"kind"`
	Tokens int    `json:"tokens"`
	Log2   int    `json:"log2,omitempty"`
}

type failAt struct {
	w io.Writer
	k int
	n int
}

func (f *failAt) Write(p []byte) (int, error) {
	f.n++
	if f.n == f.k {
		return 0, errors.New("injected write fault")
	}
	return f.w.Write(p)
}

type cutReader struct {
	r    io.Reader
	left int
	err  error
}

func (c *cutReader) Read(p []byte) (int, error) {
	if c.left == 0 {
		return 0, c.err
	}
	if len(p) > c.left {
		p = p[:c.left]
	}
	if len(p) > 1 {
		p = p[:1] // 1-byte reads
	}
	n, err := c.r.Read(p)
	c.left -= n
	return n, err
}

type format struct {
	name string
	wb   func(Writer) ([]byte, error)
	ws   func(Writer, io.Writer) error
	rb   func([]byte) (Reader, error)
	rs   func(io.Reader) (Reader, error)
}

var formats = []format{
	{"car", Writer.ToCar, Writer.ToCarWriter, FromCar, FromCarReader},
	{"carBase64", Writer.ToCarBase64, Writer.ToCarBase64Writer, FromCarBase64, FromCarBase64Reader},
	{"cbor", Writer.ToCbor, Writer.ToCborWriter, FromCbor, FromCborReader},
	{"cborBase64", Writer.ToCborBase64, Writer.ToCborBase64Writer, FromCborBase64, FromCborBase64Reader},
}

func sameSet(r Reader, want map[cid.Cid][]byte) string {
	if len(r) != len(want) {
		return fmt.Sprintf("%d tokens read, %d written", len(r), len(want))
	}
	for c := range want {
		if _, err := r.GetToken(c); err != nil {
			return fmt.Sprintf("token %s not retrievable: %v", c, err)
		}
	}
	return ""
}

func TestVerifReplay(t *testing.T) {
	path := os.Getenv("VERIF_WITNESS")
	if path == "" {
		t.Skip("no witness")
	}
	raw, err := os.ReadFile(path)
	if err != nil {
		t.Fatal(err)
	}
	var cases []ctnCase
	if err := json.Unmarshal(raw, &cases); err != nil {
		t.Fatal(err)
	}
	for _, tc := range cases {
		js, _ := json.Marshal(tc)
		switch tc.Kind {
		case "huge":
			func() {
				defer func() {
					if r := recover(); r != nil {
						fmt.Printf("REPLAY-CONFIRMED direction=any ldWrite panicked on sections of total size 2^%d: %v; witness=%s\n", tc.Log2, r, js)
					}
				}()
				// 2^(log2-32) references to one 4 GiB section (never touched: the panic precedes any write)
				big := make([]byte, 1<<32)
				d := make([][]byte, 1<<(tc.Log2-32))
				for i := range d {
					d[i] = big
				}
				if err := ldWrite(failWriter{}, d...); err != nil {
					fmt.Printf("REPLAY-AGREES ldWrite returned an error for 2^%d bytes %s\n", tc.Log2, js)
				}
			}()
			continue
		}
		w := NewWriter()
		want := map[cid.Cid][]byte{}
		for i := 0; i < tc.Tokens; i++ {
			_, c, data := randToken()
			w.AddSealed(c, data)
			want[c] = data
		}
		for _, f := range formats {
			switch tc.Kind {
			case "roundtrip":
				b1, err1 := f.wb(w)
				var sb bytes.Buffer
				err2 := f.ws(w, &sb)
				if err1 != nil || err2 != nil {
					fmt.Printf("REPLAY-CONFIRMED direction=any %s: writer failed on healthy sink: %v %v; witness=%s\n", f.name, err1, err2, js)
					continue
				}
				for wi, data := range [][]byte{b1, sb.Bytes()} {
					r1, e1 := f.rb(data)
					r2, e2 := f.rs(&cutReader{r: bytes.NewReader(data), left: len(data), err: io.EOF})
					for ri, rr := range []struct {
						r Reader
						e error
					}{{r1, e1}, {r2, e2}} {
						if rr.e != nil {
							fmt.Printf("REPLAY-CONFIRMED direction=any %s writer#%d reader#%d: reading what was written failed: %v; witness=%s\n", f.name, wi, ri, rr.e, js)
						} else if d := sameSet(rr.r, want); d != "" {
							fmt.Printf("REPLAY-CONFIRMED direction=any %s writer#%d reader#%d: %s; witness=%s\n", f.name, wi, ri, d, js)
						} else {
							fmt.Printf("REPLAY-AGREES %s writer#%d reader#%d\n", f.name, wi, ri)
						}
					}
				}
			case "wfault":
				var cnt failAt
				cnt.w, cnt.k = io.Discard, -1
				if err := f.ws(w, &cnt); err != nil {
					continue
				}
				bad := 0
				for k := 1; k <= cnt.n; k++ {
					fa := &failAt{w: io.Discard, k: k}
					if err := f.ws(w, fa); err == nil {
						bad++
						fmt.Printf("REPLAY-CONFIRMED direction=any %s: sink failed at Write #%d of %d but the writer reported success; witness=%s\n", f.name, k, cnt.n, js)
					}
				}
				if bad == 0 {
					fmt.Printf("REPLAY-AGREES %s all %d write faults surfaced\n", f.name, cnt.n)
				}
			case "rfault":
				data, err := f.wb(w)
				if err != nil {
					continue
				}
				bad := 0
				for o := 0; o < len(data); o++ {
					for _, e := range []error{io.EOF, errors.New("injected read fault")} {
						r, err := f.rs(&cutReader{r: bytes.NewReader(data), left: o, err: e})
						if err == nil {
							if e == io.EOF && cleanCut(f.name, data, o) {
								continue // cut exactly between two blocks: the documented undetectable case
							}
							bad++
							if bad < 4 {
								fmt.Printf("REPLAY-CONFIRMED direction=any %s: source stopped with %v at offset %d of %d but the reader returned %d tokens and no error; witness=%s\n", f.name, e, o, len(data), len(r), js)
							}
						}
					}
				}
				if bad == 0 {
					fmt.Printf("REPLAY-AGREES %s all read faults surfaced (%d offsets)\n", f.name, len(data))
				}
			}
		}
	}
}

// cleanCut reports whether offset o of a written CAR (or base64 CAR) falls exactly between two sections (after the header).
func cleanCut(format string, data []byte, o int) bool {
	raw := data
	if format == "carBase64" {
		if o%4 != 0 {
			return false
		}
		dec, err := base64.StdEncoding.DecodeString(string(data))
		if err != nil {
			return false
		}
		raw, o = dec, o/4*3
	} else if format != "car" {
		return false
	}
	pos, n := 0, 0
	for pos < len(raw) {
		l, k := binary.Uvarint(raw[pos:])
		if k <= 0 {
			return false
		}
		pos += k + int(l)
		n++
		if pos == o && n >= 1 {
			return true
		}
	}
	return false
}

type failWriter struct{}

func (failWriter) Write(p []byte) (int, error) { return 0, errors.New("sink closed") }
