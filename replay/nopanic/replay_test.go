package policy

// Replay harness for C09 / C10 / C11 "no panic on arbitrary IPLD data" (injected with `go test -overlay`).
// Builds nodes from a small JSON description (including unsigned integers above MaxInt64, which
// go-ipld-prime represents as Kind_Int nodes whose AsInt fails) and runs the decoders / matchers on them.

import (
	"encoding/json"
	"fmt"
	"os"
	"strconv"
	"testing"

	"github.com/ipld/go-ipld-prime/datamodel"
	"github.com/ipld/go-ipld-prime/fluent/qp"
	"github.com/ipld/go-ipld-prime/node/basicnode"

	"github.com/ucan-wg/go-ucan/pkg/policy/limits"
	"github.com/ucan-wg/go-ucan/pkg/policy/literal"
)

type nodeDesc struct {
	Kind  string     `json:"kind"` // int uint string bool null list map
	Value string     `json:"value,omitempty"`
	Items []nodeDesc `json:"items,omitempty"`
}

func build(d nodeDesc) datamodel.Node {
	switch d.Kind {
	case "int":
		v, _ := strconv.ParseInt(d.Value, 10, 64)
		return basicnode.NewInt(v)
	case "uint":
		v, _ := strconv.ParseUint(d.Value, 10, 64)
		return basicnode.NewUint(v)
	case "string":
		return basicnode.NewString(d.Value)
	case "bool":
		return basicnode.NewBool(d.Value == "true")
	case "list":
		n, _ := qp.BuildList(basicnode.Prototype.Any, int64(len(d.Items)), func(la datamodel.ListAssembler) {
			for _, it := range d.Items {
				qp.ListEntry(la, qp.Node(build(it)))
			}
		})
		return n
	case "map":
		n, _ := qp.BuildMap(basicnode.Prototype.Any, int64(len(d.Items)), func(ma datamodel.MapAssembler) {
			for i, it := range d.Items {
				qp.MapEntry(ma, "k"+strconv.Itoa(i), qp.Node(build(it)))
			}
		})
		return n
	}
	return literal.Null()
}

func try(name string, js []byte, f func()) {
	defer func() {
		if r := recover(); r != nil {
			fmt.Printf("REPLAY-CONFIRMED direction=any %s panicked: %v; witness=%s\n", name, r, js)
		}
	}()
	f()
	fmt.Printf("REPLAY-AGREES %s returned; witness=%s\n", name, js)
}

func TestVerifReplay(t *testing.T) {
	path := os.Getenv("VERIF_WITNESS")
	if path == "" {
		t.Skip("no witness")
	}
	raw, err := os.ReadFile(path)
	if err != nil {
		t.Fatal(err)
	}
	var ws []nodeDesc
	if err := json.Unmarshal(raw, &ws); err != nil {
		t.Fatal(err)
	}
	gt := MustConstruct(GreaterThan(".", literal.Int(1)))
	gtIn := MustConstruct(All(".", GreaterThan(".", literal.Int(1))))
	for _, w := range ws {
		n := build(w)
		js, _ := json.Marshal(w)
		try("limits.ValidateIntegerBoundsIPLD", js, func() { _ = limits.ValidateIntegerBoundsIPLD(n) })
		try("policy.Match(>)", js, func() { _, _ = gt.Match(n) })
		try("policy.Match(all >)", js, func() { _, _ = gtIn.Match(n) })
		try("policy.FromIPLD", js, func() { _, _ = FromIPLD(n) })
	}
}
