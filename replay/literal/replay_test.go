package literal

// Replay harness for C10 "values are stored exactly or rejected" (injected with `go test -overlay`).
// Oracle: the integer read back from the node equals the mathematical value of the Go integer offered.

import (
	"encoding/json"
	"fmt"
	"math/big"
	"os"
	"testing"
)

type litWitness struct {
	Type  string `json:"type"`  // Go integer type name
	Value string `json:"value"` // decimal
}

func TestVerifReplay(t *testing.T) {
	path := os.Getenv("VERIF_WITNESS")
	if path == "" {
		t.Skip("no witness")
	}
	raw, err := os.ReadFile(path)
	if err != nil {
		t.Fatal(err)
	}
	var ws []litWitness
	if err := json.Unmarshal(raw, &ws); err != nil {
		t.Fatal(err)
	}
	for _, w := range ws {
		bi, ok := new(big.Int).SetString(w.Value, 10)
		if !ok {
			continue
		}
		var v any
		switch w.Type {
		case "int":
			v = int(bi.Int64())
		case "int8":
			v = int8(bi.Int64())
		case "int16":
			v = int16(bi.Int64())
		case "int32":
			v = int32(bi.Int64())
		case "int64":
			v = bi.Int64()
		case "uint":
			v = uint(bi.Uint64())
		case "uint8":
			v = uint8(bi.Uint64())
		case "uint16":
			v = uint16(bi.Uint64())
		case "uint32":
			v = uint32(bi.Uint64())
		case "uint64":
			v = bi.Uint64()
		default:
			continue
		}
		js, _ := json.Marshal(w)
		n, err := Any(v)
		if err != nil {
			fmt.Printf("REPLAY-AGREES rejected %s\n", js)
			continue
		}
		got, err := n.AsInt()
		if err != nil || big.NewInt(got).Cmp(bi) != 0 {
			fmt.Printf("REPLAY-CONFIRMED direction=any Any(%s(%s)) was accepted but the stored node reads back as %d (%v); witness=%s\n", w.Type, w.Value, got, err, js)
		} else {
			fmt.Printf("REPLAY-AGREES stored exactly %s\n", js)
		}
	}
}
