package token_test

// Replay harness for C07 (injected with `go test -overlay`; nothing is written to /repo).
// Oracle (restated from the property text): every token accepted by a constructor can be sealed with the issuer's key and
// unsealed again, and the result agrees with the original on every field (time bounds at whole-second resolution); the
// generic and the typed decoders agree; for each generatable key algorithm and for DAG-CBOR and DAG-JSON.

import (
	"encoding/json"
	"fmt"
	"os"
	"testing"
	"time"

	"github.com/libp2p/go-libp2p/core/crypto"

	"github.com/ucan-wg/go-ucan/did"
	"github.com/ucan-wg/go-ucan/pkg/command"
	"github.com/ucan-wg/go-ucan/pkg/policy"
	"github.com/ucan-wg/go-ucan/token"
	"github.com/ucan-wg/go-ucan/token/delegation"
	"github.com/ucan-wg/go-ucan/token/invocation"
)

type rtCase struct {
	Kind string `json:"kind"` // delegation | invocation
	Alg  string `json:"alg"`
	Cmd  string `json:"cmd"`           // raw command string (may be invalid)
	Exp  int64  `json:"exp,omitempty"` // unix seconds of the expiration, 0 = none
	Nbf  int64  `json:"nbf,omitempty"`
	Sub  bool   `json:"sub,omitempty"`
	Meta int    `json:"meta,omitempty"`
}

func gen(alg string) (crypto.PrivKey, did.DID, error) {
	switch alg {
	case "ed25519":
		return did.GenerateEd25519()
	case "secp256k1":
		return did.GenerateSecp256k1()
	case "rsa":
		return did.GenerateRSA()
	case "p256":
		return did.GenerateECDSAWithCurve(did.P256)
	case "p384":
		return did.GenerateECDSAWithCurve(did.P384)
	case "p521":
		return did.GenerateECDSAWithCurve(did.P521)
	}
	return nil, did.Undef, fmt.Errorf("unknown algorithm")
}

func sameTime(a, b *time.Time) bool {
	if a == nil || b == nil {
		return a == nil && b == nil
	}
	return a.Unix() == b.Unix()
}

func TestVerifReplay(t *testing.T) {
	path := os.Getenv("VERIF_WITNESS")
	if path == "" {
		t.Skip("no witness")
	}
	raw, err := os.ReadFile(path)
	if err != nil {
		t.Fatal(err)
	}
	var cases []rtCase
	if err := json.Unmarshal(raw, &cases); err != nil {
		t.Fatal(err)
	}
	for _, tc := range cases {
		js, _ := json.Marshal(tc)
		func() {
			defer func() {
				if r := recover(); r != nil {
					fmt.Printf("REPLAY-CONFIRMED direction=any panic: %v; witness=%s\n", r, js)
				}
			}()
			priv, iss, err := gen(tc.Alg)
			if err != nil || priv == nil {
				fmt.Printf("REPLAY-SKIP cannot generate a key %s\n", js)
				return
			}
			_, aud, _ := gen("ed25519")
			cmd := command.Command(tc.Cmd)
			switch tc.Kind {
			case "delegation":
				var opts []delegation.Option
				if tc.Exp != 0 {
					opts = append(opts, delegation.WithExpiration(time.Unix(tc.Exp, 0)))
				}
				if tc.Nbf != 0 {
					opts = append(opts, delegation.WithNotBefore(time.Unix(tc.Nbf, 0)))
				}
				if tc.Sub {
					opts = append(opts, delegation.WithSubject(iss))
				}
				for i := 0; i < tc.Meta; i++ {
					opts = append(opts, delegation.WithMeta(fmt.Sprintf("k%d", i), int64(i)))
				}
				tkn, err := delegation.New(iss, aud, cmd, policy.Policy{}, opts...)
				if err != nil {
					fmt.Printf("REPLAY-AGREES rejected by the constructor: %v %s\n", err, js)
					return
				}
				for _, codec := range []string{"cbor", "json"} {
					var data []byte
					var back *delegation.Token
					var gen2 token.Token
					if codec == "cbor" {
						data, err = tkn.ToDagCbor(priv)
						if err == nil {
							back, err = delegation.FromDagCbor(data)
						}
						if err == nil {
							gen2, err = token.FromDagCbor(data)
						}
					} else {
						data, err = tkn.ToDagJson(priv)
						if err == nil {
							back, err = delegation.FromDagJson(data)
						}
						if err == nil {
							gen2, err = token.FromDagJson(data)
						}
					}
					if err != nil {
						fmt.Printf("REPLAY-CONFIRMED direction=any a delegation accepted by the constructor cannot be sealed and unsealed (%s): %v; witness=%s\n", codec, err, js)
						return
					}
					g, ok := gen2.(*delegation.Token)
					for _, b := range []*delegation.Token{back, g} {
						if !ok || b.Issuer() != tkn.Issuer() || b.Audience() != tkn.Audience() || b.Subject() != tkn.Subject() || b.Command() != tkn.Command() ||
							string(b.Nonce()) != string(tkn.Nonce()) || !sameTime(b.Expiration(), tkn.Expiration()) || !sameTime(b.NotBefore(), tkn.NotBefore()) || !b.Meta().Equals(tkn.Meta()) {
							fmt.Printf("REPLAY-CONFIRMED direction=any the unsealed delegation differs from the original (%s); witness=%s\n", codec, js)
							return
						}
					}
				}
				fmt.Printf("REPLAY-AGREES %s\n", js)
			case "invocation":
				var opts []invocation.Option
				if tc.Exp != 0 {
					opts = append(opts, invocation.WithExpiration(time.Unix(tc.Exp, 0)))
				}
				tkn, err := invocation.New(iss, aud, cmd, nil, opts...)
				if err != nil {
					fmt.Printf("REPLAY-AGREES rejected by the constructor: %v %s\n", err, js)
					return
				}
				data, err := tkn.ToDagCbor(priv)
				var back *invocation.Token
				if err == nil {
					back, err = invocation.FromDagCbor(data)
				}
				if err != nil {
					fmt.Printf("REPLAY-CONFIRMED direction=any an invocation accepted by the constructor cannot be sealed and unsealed: %v; witness=%s\n", err, js)
					return
				}
				if back.Issuer() != tkn.Issuer() || back.Subject() != tkn.Subject() || back.Command() != tkn.Command() || !sameTime(back.Expiration(), tkn.Expiration()) || !sameTime(back.InvokedAt(), tkn.InvokedAt()) {
					fmt.Printf("REPLAY-CONFIRMED direction=any the unsealed invocation differs from the original; witness=%s\n", js)
					return
				}
				fmt.Printf("REPLAY-AGREES %s\n", js)
			}
		}()
	}
}
