package did

// Replay harness for C16 (injected with `go test -overlay`; nothing is written to /repo).
// Oracles (restated from the property text):
//   gen     for a freshly generated key of algorithm A: the DID built from it prints to a string that parses back to an equal DID,
//           and that DID yields a public key equal to the original
//   extract for a DID whose bytes are the varint of a supported code followed by arbitrary material: Parse either rejects it, or
//           PubKey returns a key or an error (never panics), and an extracted key's canonical DID is this DID (one key, one DID)

import (
	"crypto/ecdsa"
	"crypto/elliptic"
	"crypto/rand"
	"encoding/hex"
	"encoding/json"
	"fmt"
	"os"
	"testing"

	"github.com/decred/dcrd/dcrec/secp256k1/v4"
	mbase "github.com/multiformats/go-multibase"
	"github.com/multiformats/go-multicodec"
	varint "github.com/multiformats/go-varint"
	crypto "github.com/libp2p/go-libp2p/core/crypto"
)

type didCase struct {
	Kind string `json:"kind"`
	Alg  string `json:"alg,omitempty"`
	Code uint64 `json:"code,omitempty"`
	Hex  string `json:"hex,omitempty"` // key material after the varint
}

func TestVerifReplay(t *testing.T) {
	path := os.Getenv("VERIF_WITNESS")
	if path == "" {
		t.Skip("no witness")
	}
	raw, err := os.ReadFile(path)
	if err != nil {
		t.Fatal(err)
	}
	var cases []didCase
	if err := json.Unmarshal(raw, &cases); err != nil {
		t.Fatal(err)
	}
	for _, tc := range cases {
		js, _ := json.Marshal(tc)
		func() {
			defer func() {
				if r := recover(); r != nil {
					fmt.Printf("REPLAY-CONFIRMED direction=any panic: %v; witness=%s\n", r, js)
				}
			}()
			switch tc.Kind {
			case "gen":
				var priv crypto.PrivKey
				var d DID
				var err error
				switch tc.Alg {
				case "ed25519":
					priv, d, err = GenerateEd25519()
				case "rsa":
					priv, d, err = GenerateRSA()
				case "secp256k1":
					priv, d, err = GenerateSecp256k1()
				case "p256":
					priv, d, err = GenerateECDSAWithCurve(P256)
				case "p384":
					priv, d, err = GenerateECDSAWithCurve(P384)
				case "p521":
					priv, d, err = GenerateECDSAWithCurve(P521)
				}
				if err != nil || priv == nil {
					fmt.Printf("REPLAY-SKIP cannot generate %s: %v\n", js, err)
					return
				}
				back, perr := Parse(d.String())
				if perr != nil || back != d {
					fmt.Printf("REPLAY-CONFIRMED direction=any the DID of a generated %s key prints to %s, which does not parse back to it (%v); witness=%s\n", tc.Alg, d.String(), perr, js)
					return
				}
				pk, kerr := back.PubKey()
				if kerr != nil || !pk.Equals(priv.GetPublic()) {
					fmt.Printf("REPLAY-CONFIRMED direction=any the DID of a generated %s key does not yield the original public key (%v); witness=%s\n", tc.Alg, kerr, js)
					return
				}
				fmt.Printf("REPLAY-AGREES %s\n", js)
			case "coerce":
				// an ECDSA-typed key on the secp256k1 curve whose X or Y coordinate has a leading zero byte
				for i := 0; i < 20000; i++ {
					sk, err := ecdsa.GenerateKey(secp256k1.S256(), rand.Reader)
					if err != nil {
						fmt.Printf("REPLAY-SKIP %v\n", err)
						return
					}
					if sk.X.BitLen() > 248 && sk.Y.BitLen() > 248 {
						continue
					}
					_, pub, err := crypto.ECDSAKeyPairFromKey(sk)
					if err != nil {
						fmt.Printf("REPLAY-SKIP %v\n", err)
						return
					}
					d, err := FromPubKey(pub)
					if err != nil {
						fmt.Printf("REPLAY-CONFIRMED direction=any FromPubKey fails for a valid ECDSA key on secp256k1 whose coordinates have %d and %d bits: %v; witness=%s\n", sk.X.BitLen(), sk.Y.BitLen(), err, js)
						return
					}
					if back, perr := Parse(d.String()); perr != nil || back != d {
						fmt.Printf("REPLAY-CONFIRMED direction=any coerced secp256k1 DID does not parse back; witness=%s\n", js)
						return
					}
					fmt.Printf("REPLAY-AGREES coerced key with a short coordinate %s\n", js)
					return
				}
				fmt.Printf("REPLAY-SKIP no key with a short coordinate found %s\n", js)
			case "extract":
				mat, _ := hex.DecodeString(tc.Hex)
				if tc.Hex == "uncompressed-secp256k1" {
					priv, _, _ := GenerateSecp256k1()
					rawc, _ := priv.GetPublic().Raw()
					pp, _ := secp256k1.ParsePubKey(rawc)
					mat = pp.SerializeUncompressed()
				}
				b := append(varint.ToUvarint(tc.Code), mat...)
				txt, _ := mbase.Encode(mbase.Base58BTC, b)
				d, err := Parse("did:key:" + txt)
				if err != nil {
					fmt.Printf("REPLAY-AGREES rejected by Parse %s\n", js)
					return
				}
				pk, kerr := d.PubKey()
				if kerr != nil {
					fmt.Printf("REPLAY-AGREES PubKey returns an error %s\n", js)
					return
				}
				canon, cerr := FromPubKey(pk)
				if cerr != nil || canon != d {
					fmt.Printf("REPLAY-CONFIRMED direction=any an accepted identifier yields a key whose canonical DID is a different one (%s vs %s); witness=%s\n", d.String(), canon.String(), js)
					return
				}
				fmt.Printf("REPLAY-AGREES canonical %s\n", js)
			}
		}()
	}
	_ = multicodec.Identity
	_ = elliptic.P256
}
