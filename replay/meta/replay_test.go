package meta

// Replay harness for C19 (injected with `go test -overlay`; nothing is written to /repo).
// Oracles (restated from the property text):
//   roundtrip  a value added encrypted under a 32-byte key is returned unchanged with the same key
//   wrongkey   reading with a different key returns an error
//   bitflip    reading after any single-bit modification of the stored ciphertext returns an error
//   fresh      N encryptions of the same value give N different stored values; the plaintext does not appear in them
//   badkeys    missing, wrong-size and all-zero keys are refused by AddEncrypted and GetEncrypted*

import (
	"bytes"
	"encoding/json"
	"fmt"
	"os"
	"testing"

	"github.com/ipld/go-ipld-prime/node/basicnode"
)

type metaCase struct {
	Kind string `json:"kind"`
	Size int    `json:"size"`
	N    int    `json:"n,omitempty"`
}

func key32(seed byte) []byte {
	k := make([]byte, 32)
	for i := range k {
		k[i] = seed + byte(i)
	}
	return k
}

func TestVerifReplay(t *testing.T) {
	path := os.Getenv("VERIF_WITNESS")
	if path == "" {
		t.Skip("no witness")
	}
	raw, err := os.ReadFile(path)
	if err != nil {
		t.Fatal(err)
	}
	var cases []metaCase
	if err := json.Unmarshal(raw, &cases); err != nil {
		t.Fatal(err)
	}
	for _, tc := range cases {
		js, _ := json.Marshal(tc)
		func() {
			defer func() {
				if r := recover(); r != nil {
					fmt.Printf("REPLAY-CONFIRMED direction=any panic: %v; witness=%s\n", r, js)
				}
			}()
			plain := make([]byte, tc.Size)
			for i := range plain {
				plain[i] = byte(37*i + 11)
			}
			k := key32(1)
			bad := 0
			switch tc.Kind {
			case "roundtrip", "wrongkey", "bitflip":
				m := NewMeta()
				if err := m.AddEncrypted("x", plain, k); err != nil {
					fmt.Printf("REPLAY-CONFIRMED direction=any AddEncrypted failed with a valid key: %v; witness=%s\n", err, js)
					return
				}
				stored, _ := m.GetBytes("x")
				switch tc.Kind {
				case "roundtrip":
					got, err := m.GetEncryptedBytes("x", k)
					if err != nil || !bytes.Equal(got, plain) {
						bad++
						fmt.Printf("REPLAY-CONFIRMED direction=any a value of %d bytes does not come back unchanged (%v); witness=%s\n", tc.Size, err, js)
					}
					if tc.Size >= 8 && bytes.Contains(stored, plain) {
						bad++
						fmt.Printf("REPLAY-CONFIRMED direction=any the plaintext appears in the stored value; witness=%s\n", js)
					}
				case "wrongkey":
					if _, err := m.GetEncryptedBytes("x", key32(2)); err == nil {
						bad++
						fmt.Printf("REPLAY-CONFIRMED direction=any reading with a different key returned data; witness=%s\n", js)
					}
				case "bitflip":
					for i := 0; i < len(stored)*8; i++ {
						mod := append([]byte(nil), stored...)
						mod[i/8] ^= 1 << (i % 8)
						m2 := NewMeta()
						_ = m2.Add("x", basicnode.NewBytes(mod))
						if _, err := m2.GetEncryptedBytes("x", k); err == nil {
							bad++
							if bad < 4 {
								fmt.Printf("REPLAY-CONFIRMED direction=any the stored value with bit %d of byte %d flipped still decrypts; witness=%s\n", i%8, i/8, js)
							}
						}
					}
				}
			case "fresh":
				seen := map[string]int{}
				for i := 0; i < tc.N; i++ {
					m := NewMeta()
					_ = m.AddEncrypted("x", plain, k)
					stored, _ := m.GetBytes("x")
					if j, ok := seen[string(stored)]; ok {
						bad++
						fmt.Printf("REPLAY-CONFIRMED direction=any encryption #%d of the same value gives the same stored value as encryption #%d; witness=%s\n", i, j, js)
						break
					}
					seen[string(stored)] = i
				}
			case "badkeys":
				for name, bk := range map[string][]byte{"nil": nil, "short": make([]byte, 16), "long": key32(1)[:31], "33": append(key32(1), 1), "zero": make([]byte, 32)} {
					m := NewMeta()
					if err := m.AddEncrypted("x", plain, bk); err == nil {
						bad++
						fmt.Printf("REPLAY-CONFIRMED direction=any AddEncrypted accepted a %s key; witness=%s\n", name, js)
					}
					m2 := NewMeta()
					_ = m2.AddEncrypted("x", plain, k)
					if _, err := m2.GetEncryptedBytes("x", bk); err == nil {
						bad++
						fmt.Printf("REPLAY-CONFIRMED direction=any GetEncryptedBytes accepted a %s key; witness=%s\n", name, js)
					}
				}
			}
			if bad == 0 {
				fmt.Printf("REPLAY-AGREES %s\n", js)
			}
		}()
	}
}
