/-
C15 bridging lemma: for commands with a leading '/', "covers" in its textual form
(prefix + boundary) is the same as "segments of c are a list-prefix of segments of o".
Pure list statement; no Mathlib needed.
-/
namespace Cmd

def sep : Char := '/'

/-- segments of a command: "/" has none; otherwise split the text after the leading slash. -/
def segs : List Char → List (List Char)
  | [] => []
  | _ :: t => if t = [] then [] else t.splitOn sep

/-- the textual characterisation proved on the Go code (`coversSpec`). -/
def coversSpec (c o : List Char) : Prop :=
  c <+: o ∧ (c = [sep] ∨ c.length = o.length ∨ o[c.length]? = some sep)

theorem intercalate_append_of_ne_nil {α} (ys : List α) (A R : List (List α)) (hA : A ≠ []) (hR : R ≠ []) :
    ys.intercalate (A ++ R) = ys.intercalate A ++ ys ++ ys.intercalate R := by
  induction A with
  | nil => exact absurd rfl hA
  | cons a A' ih =>
    by_cases hA' : A' = []
    · subst hA'
      simpa using List.intercalate_cons_of_ne_nil (ys := ys) (l := a) hR
    · have hne : A' ++ R ≠ [] := by simp [hA']
      rw [List.cons_append, List.intercalate_cons_of_ne_nil hne, ih hA',
          List.intercalate_cons_of_ne_nil hA']
      simp [List.append_assoc]

theorem covers_iff_segs (tc to : List Char) :
    coversSpec (sep :: tc) (sep :: to) ↔ segs (sep :: tc) <+: segs (sep :: to) := by
  unfold coversSpec segs
  constructor
  · rintro ⟨hpre, h⟩
    have hpre' : tc <+: to := by simpa using hpre
    by_cases htc : tc = []
    · simp [htc]
    · obtain ⟨r, hr⟩ := hpre'
      rcases h with h | h | h
      · simp at h; exact absurd h htc
      · have : r = [] := by
          have hl := congrArg List.length hr
          rw [List.length_append] at hl
          have h' : tc.length = to.length := by simpa using h
          exact List.eq_nil_of_length_eq_zero (by omega)
        subst this; simp at hr; subst hr; simp [htc]
      · -- o[len c] = '/'
        have hr' : r ≠ [] := by
          intro hr0; subst hr0; simp at hr; subst hr; simp at h
        obtain ⟨x, r', rfl⟩ := List.exists_cons_of_ne_nil hr'
        have hx : x = sep := by
          subst hr
          simpa [List.getElem?_append_right, List.getElem?_cons_succ] using h
        subst hx; subst hr
        have hne : tc ++ sep :: r' ≠ [] := by simp
        simp only [htc, hne, if_false]
        rw [List.splitOn_append_cons_self]
        exact List.prefix_append _ _
  · intro h
    by_cases htc : tc = []
    · subst htc; simp [sep]
    · simp only [htc, if_false] at h
      by_cases hto : to = []
      · subst hto; simp at h
      · simp only [hto, if_false] at h
        obtain ⟨R, hR⟩ := h
        have hto' : to = [sep].intercalate (tc.splitOn sep ++ R) := by
          rw [hR]; exact (List.intercalate_splitOn sep).symm
        by_cases hR0 : R = []
        · subst hR0
          simp at hto'
          subst hto'
          exact ⟨List.prefix_refl _, Or.inr (Or.inl rfl)⟩
        · rw [intercalate_append_of_ne_nil _ _ _ (List.splitOn_ne_nil _ _) hR0,
              List.intercalate_splitOn] at hto'
          refine ⟨?_, Or.inr (Or.inr ?_)⟩
          · rw [hto']; simp [List.append_assoc]
          · rw [hto']; simp [List.append_assoc]

end Cmd
