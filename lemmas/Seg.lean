/-
C15 bridging lemmas (covers_iff_segs, join_segs): for commands with a leading '/', "covers" in its textual form
(prefix + boundary) is the same as "segments of c are a list-prefix of segments of o".
Pure list statement; no Mathlib needed.
-/
namespace Cmd

def sep : Char := '/'

/-- segments of a command: "/" has none; otherwise split the text after the leading slash. -/
def segs : List Char → List (List Char)
  | [] => []
  | _ :: t => if t = [] then [] else t.splitOn sep

/-- the textual characterisation proved on the Go code (`coversSpec`). -/
def coversSpec (c o : List Char) : Prop :=
  c <+: o ∧ (c = [sep] ∨ c.length = o.length ∨ o[c.length]? = some sep)

theorem intercalate_append_of_ne_nil {α} (ys : List α) (A R : List (List α)) (hA : A ≠ []) (hR : R ≠ []) :
    ys.intercalate (A ++ R) = ys.intercalate A ++ ys ++ ys.intercalate R := by
  induction A with
  | nil => exact absurd rfl hA
  | cons a A' ih =>
    by_cases hA' : A' = []
    · subst hA'
      simpa using List.intercalate_cons_of_ne_nil (ys := ys) (l := a) hR
    · have hne : A' ++ R ≠ [] := by simp [hA']
      rw [List.cons_append, List.intercalate_cons_of_ne_nil hne, ih hA',
          List.intercalate_cons_of_ne_nil hA']
      simp [List.append_assoc]

theorem covers_iff_segs (tc to : List Char) :
    coversSpec (sep :: tc) (sep :: to) ↔ segs (sep :: tc) <+: segs (sep :: to) := by
  unfold coversSpec segs
  constructor
  · rintro ⟨hpre, h⟩
    have hpre' : tc <+: to := by simpa using hpre
    by_cases htc : tc = []
    · simp [htc]
    · obtain ⟨r, hr⟩ := hpre'
      rcases h with h | h | h
      · simp at h; exact absurd h htc
      · have : r = [] := by
          have hl := congrArg List.length hr
          rw [List.length_append] at hl
          have h' : tc.length = to.length := by simpa using h
          exact List.eq_nil_of_length_eq_zero (by omega)
        subst this; simp at hr; subst hr; simp [htc]
      · -- o[len c] = '/'
        have hr' : r ≠ [] := by
          intro hr0; subst hr0; simp at hr; subst hr; simp at h
        obtain ⟨x, r', rfl⟩ := List.exists_cons_of_ne_nil hr'
        have hx : x = sep := by
          subst hr
          simpa [List.getElem?_append_right, List.getElem?_cons_succ] using h
        subst hx; subst hr
        have hne : tc ++ sep :: r' ≠ [] := by simp
        simp only [htc, hne, if_false]
        rw [List.splitOn_append_cons_self]
        exact List.prefix_append _ _
  · intro h
    by_cases htc : tc = []
    · subst htc; simp [sep]
    · simp only [htc, if_false] at h
      by_cases hto : to = []
      · subst hto; simp at h
      · simp only [hto, if_false] at h
        obtain ⟨R, hR⟩ := h
        have hto' : to = [sep].intercalate (tc.splitOn sep ++ R) := by
          rw [hR]; exact (List.intercalate_splitOn sep).symm
        by_cases hR0 : R = []
        · subst hR0
          simp at hto'
          subst hto'
          exact ⟨List.prefix_refl _, Or.inr (Or.inl rfl)⟩
        · rw [intercalate_append_of_ne_nil _ _ _ (List.splitOn_ne_nil _ _) hR0,
              List.intercalate_splitOn] at hto'
          refine ⟨?_, Or.inr (Or.inr ?_)⟩
          · rw [hto']; simp [List.append_assoc]
          · rw [hto']; simp [List.append_assoc]


/-! ## Join: "joining segments yields the command with those segments appended"

`joinSpec` mirrors the contract-level spec function of the same name in /repo/pkg/command/zz_contracts_verif.go
(proved there, by the SMT back ends, to be what `Command.Join` returns).  Here: for a command text (leading
separator, no trailing separator) and segments that are non-empty and separator-free, the segments of the
joined text are the segments of the command followed by the given ones, and the result is again a command text. -/

/-- one step of `joinSpec` (the Go contract): append segment s to the text a. -/
def step (a s : List Char) : List Char :=
  if s = [] then a else if a.length > 1 then a ++ [sep] ++ s else a ++ s

/-- `joinSpec(c, ss, len ss)`: the contract's recursion on n is this left fold read from the right end. -/
def joinSpec (c : List Char) (ss : List (List Char)) : List Char := ss.foldl step c

theorem joinSpec_snoc (c : List Char) (ss : List (List Char)) (s : List Char) :
    joinSpec c (ss ++ [s]) = step (joinSpec c ss) s := by
  simp [joinSpec, List.foldl_append]

/-- a command text: leading separator, and no trailing separator unless it is the bare "/" -/
def okCmd (a : List Char) : Prop := ∃ t, a = sep :: t ∧ (t = [] ∨ t.getLast? ≠ some sep)

def okSeg (s : List Char) : Prop := s ≠ [] ∧ sep ∉ s

theorem step_ok (a s : List Char) (ha : okCmd a) (hs : okSeg s) :
    okCmd (step a s) ∧ segs (step a s) = segs a ++ [s] := by
  obtain ⟨t, rfl, ht⟩ := ha
  obtain ⟨hne, hmem⟩ := hs
  have hlast : s.getLast? ≠ some sep := by
    intro h
    exact hmem (List.mem_of_getLast? h)
  unfold step
  simp only [hne, if_false]
  by_cases htn : t = []
  · subst htn
    simp [segs, hne, List.splitOn_eq_singleton hmem, okCmd]
    exact hlast
  · have hlen : (sep :: t).length > 1 := by
      cases t with
      | nil => exact absurd rfl htn
      | cons x xs => simp
    simp only [hlen, if_true]
    constructor
    · refine ⟨t ++ [sep] ++ s, by simp, Or.inr ?_⟩
      obtain ⟨y, ys, rfl⟩ := List.exists_cons_of_ne_nil hne
      intro hx
      apply hlast
      simpa [List.getLast?_append, List.getLast?_cons_cons] using hx
    · have : sep :: t ++ [sep] ++ s = sep :: (t ++ sep :: s) := by simp
      rw [this]
      simp [segs, htn, List.splitOn_append_cons_self, List.splitOn_eq_singleton hmem]

theorem join_segs (c : List Char) (ss : List (List Char)) (hc : okCmd c) (hss : ∀ s ∈ ss, okSeg s) :
    okCmd (joinSpec c ss) ∧ segs (joinSpec c ss) = segs c ++ ss := by
  induction ss generalizing c with
  | nil => simp [joinSpec, hc]
  | cons s ss ih =>
    obtain ⟨h1, h2⟩ := step_ok c s hc (hss s (by simp))
    have ih' := ih (step c s) h1 (fun x hx => hss x (by simp [hx]))
    have : joinSpec c (s :: ss) = joinSpec (step c s) ss := by simp [joinSpec]
    rw [this]
    exact ⟨ih'.1, by rw [ih'.2, h2]; simp⟩
end Cmd
