package main

import (
	"time"
	"flag"
	"fmt"
	"os"
	"path/filepath"
	"strings"
	"sync"

	"govc/internal/vc"
)

type Mutant struct {
	ID       string `json:"id"`
	Property string `json:"property"`
	File     string `json:"file"`
	Old      string `json:"old"`
	New      string `json:"new"`
	// More: further edits of the same mutant (a change that needs two cooperating sites)
	More []Mutant `json:"more,omitempty"`
}

func applyMutant(m Mutant) (map[string][]byte, error) {
	path := filepath.Join(repoDir(), m.File)
	b, err := os.ReadFile(path)
	if err != nil {
		return nil, err
	}
	if !strings.Contains(string(b), m.Old) {
		return nil, fmt.Errorf("mutant %s: source text not found in %s (corpus out of date)", m.ID, m.File)
	}
	ov := map[string][]byte{path: []byte(strings.Replace(string(b), m.Old, m.New, 1))}
	for _, x := range m.More {
		xp := filepath.Join(repoDir(), x.File)
		cur, ok := ov[xp]
		if !ok {
			if cur, err = os.ReadFile(xp); err != nil {
				return nil, err
			}
		}
		if !strings.Contains(string(cur), x.Old) {
			return nil, fmt.Errorf("mutant %s: source text not found in %s (corpus out of date)", m.ID, x.File)
		}
		ov[xp] = []byte(strings.Replace(string(cur), x.Old, x.New, 1))
	}
	return ov, nil
}

// runMutants applies each mutant in memory (go/packages overlay; /repo is never written) and
// runs the property check on it.  wantFail: mutants must be detected; otherwise they must pass.
func runMutants(root string, ms []Mutant, claims Claims, known []KnownFinding, dir string, wantFail bool) *selftestSummary {
	st := &selftestSummary{}
	var mu sync.Mutex
	sem := make(chan struct{}, 2)
	var wg sync.WaitGroup
	for _, m := range ms {
		wg.Add(1)
		go func(m Mutant) {
			defer wg.Done()
			sem <- struct{}{}
			defer func() { <-sem }()
			detail := ""
			failed := false
			ov, err := applyMutant(m)
			if err != nil {
				detail = err.Error()
				failed = !wantFail // a stale corpus entry counts as a miss either way
				mu.Lock()
				st.Tried++
				st.Missed = append(st.Missed, m.ID+" ("+detail+")")
				mu.Unlock()
				return
			}
			p, err := vc.Load(repoDir(), filepath.Join(root, "stubs"), ov)
			if err != nil {
				time.Sleep(3 * time.Second) // one retry: the go command may fail transiently under load
				p, err = vc.Load(repoDir(), filepath.Join(root, "stubs"), ov)
			}
			if err != nil {
				detail = "does not load: " + err.Error()
				mu.Lock()
				st.Tried++
				st.Missed = append(st.Missed, m.ID+" ("+detail+")")
				mu.Unlock()
				return
			}
			sub := filepath.Join(dir, "mut-"+m.ID)
			os.MkdirAll(sub, 0o755)
			out := runProperty(p, m.Property, claims.Properties[m.Property], known, sub, 60, false)
			failed = len(out.violations) > 0
			if failed {
				// prefer a violation the solver decided over one it merely timed out on
				v := out.violations[0]
				for _, x := range out.violations {
					if x.Status != "timeout" {
						v = x
						break
					}
				}
				detail = fmt.Sprintf("%s::%s (%s)", shortName(v.Func), v.Obl, v.Status)
			}
			os.RemoveAll(sub)
			mu.Lock()
			defer mu.Unlock()
			st.Tried++
			if failed == wantFail {
				st.Caught++
				st.Detail = append(st.Detail, fmt.Sprintf("%s: %s", m.ID, map[bool]string{true: "detected by " + detail, false: "passes"}[failed]))
			} else {
				st.Missed = append(st.Missed, m.ID+map[bool]string{true: " (not detected)", false: " (false alarm: " + detail + ")"}[wantFail])
			}
		}(m)
	}
	wg.Wait()
	return st
}

func loadMutants(root, file, property string) []Mutant {
	var ms []Mutant
	_ = loadJSON(filepath.Join(root, "selftest", file), &ms)
	var out []Mutant
	for _, m := range ms {
		if property == "" || m.Property == property {
			out = append(out, m)
		}
	}
	return out
}

func runSelftest(root, id string, claims Claims, known []KnownFinding, dir string) *selftestSummary {
	st := runMutants(root, loadMutants(root, "mutants.json", id), claims, known, dir, true)
	nt := runMutants(root, loadMutants(root, "neutral.json", id), claims, known, dir, false)
	st.NeutralTried = nt.Tried
	st.NeutralPassed = nt.Caught
	st.Missed = append(st.Missed, nt.Missed...)
	st.Detail = append(st.Detail, nt.Detail...)
	return st
}

func cmdSelftest(args []string) int {
	fs := flag.NewFlagSet("selftest", flag.ExitOnError)
	fs.Parse(args)
	root := verifRoot()
	var claims Claims
	_ = loadJSON(filepath.Join(root, "claims.json"), &claims)
	var known []KnownFinding
	_ = loadJSON(filepath.Join(root, "known_findings.json"), &known)
	dir, _ := os.MkdirTemp("", "govc-selftest")
	defer os.RemoveAll(dir)
	ids := fs.Args()
	if len(ids) == 0 {
		ids = []string{""}
	}
	rc := 0
	for _, id := range ids {
		st := runSelftest(root, id, claims, known, dir)
		for _, d := range st.Detail {
			fmt.Println("  ", d)
		}
		for _, m := range st.Missed {
			fmt.Println("   MISSED:", m)
			rc = 1
		}
		fmt.Printf("selftest %s: mutants %d/%d detected, neutral edits %d/%d pass\n", id, st.Caught, st.Tried, st.NeutralPassed, st.NeutralTried)
	}
	return rc
}
