package main

import (
	"flag"
	"fmt"
	"os"
	"path/filepath"
	"sort"
	"strings"
	"sync"
	"time"

	"golang.org/x/tools/go/ssa"

	"govc/internal/smt"
	"govc/internal/vc"
)

func verifRoot() string {
	if r := os.Getenv("VERIF_ROOT"); r != "" {
		return r
	}
	exe, err := os.Executable()
	if err == nil {
		d := filepath.Dir(filepath.Dir(exe))
		if _, err := os.Stat(filepath.Join(d, "stubs")); err == nil {
			return d
		}
	}
	return "/verif"
}

func repoDir() string {
	if r := os.Getenv("VERIF_REPO"); r != "" {
		return r
	}
	return "/repo"
}

func main() {
	if len(os.Args) < 2 {
		fmt.Fprintln(os.Stderr, "usage: govc vc|check|lemmas|list ...")
		os.Exit(2)
	}
	switch os.Args[1] {
	case "vc":
		cmdVC(os.Args[2:])
	case "check":
		os.Exit(cmdCheck(os.Args[2:]))
	case "replay":
		os.Exit(cmdReplay(os.Args[2:]))
	case "selftest":
		os.Exit(cmdSelftest(os.Args[2:]))
	case "list":
		cmdList()
	default:
		fmt.Fprintln(os.Stderr, "unknown command", os.Args[1])
		os.Exit(2)
	}
}

type oblResult struct {
	O *vc.Obligation
	R smt.Result
}

// discharge runs all obligations through the portfolio in parallel.
func discharge(obls []*vc.Obligation, dir string, timeoutS int, all bool) []oblResult {
	res := make([]oblResult, len(obls))
	sem := make(chan struct{}, 6)
	var wg sync.WaitGroup
	for i, o := range obls {
		wg.Add(1)
		go func(i int, o *vc.Obligation) {
			defer wg.Done()
			sem <- struct{}{}
			defer func() { <-sem }()
			q := o.Query(smt.Prelude)
			name := fmt.Sprintf("q%04d", i)
			var r smt.Result
			if o.ExpectSat {
				r = smt.Quick(q, dir, name, 2)
			} else {
				r = smt.Solve(q, dir, name, timeoutS, all)
			}
			res[i] = oblResult{o, r}
		}(i, o)
	}
	wg.Wait()
	return res
}

func findFuncs(p *vc.Prog, pat string) []*ssa.Function {
	var out []*ssa.Function
	for name, f := range p.Funcs {
		if name == pat || strings.HasSuffix(name, pat) && strings.HasPrefix(name, "") && (strings.Contains(name, vc.ModulePath)) {
			out = append(out, f)
		}
	}
	sort.Slice(out, func(i, j int) bool { return out[i].String() < out[j].String() })
	return out
}

// cmdVC: developer command — verify the functions whose full name ends with the pattern.
func cmdVC(args []string) {
	fs := flag.NewFlagSet("vc", flag.ExitOnError)
	keep := fs.String("keep", "", "directory to keep queries in")
	timeout := fs.Int("t", 20, "solver timeout (s)")
	verbose := fs.Bool("v", false, "verbose")
	lemmas := fs.Bool("lemmas", false, "patterns are lemma names")
	sub := fs.String("sub", "", "in-memory source substitution: relpath|||old|||new")
	fs.Parse(args)
	start := time.Now()
	var overlay map[string][]byte
	if *sub != "" {
		parts := strings.Split(*sub, "|||")
		path := filepath.Join(repoDir(), parts[0])
		b, err := os.ReadFile(path)
		if err != nil {
			panic(err)
		}
		if !strings.Contains(string(b), parts[1]) {
			fmt.Fprintln(os.Stderr, "substitution source text not found")
			os.Exit(2)
		}
		overlay = map[string][]byte{path: []byte(strings.Replace(string(b), parts[1], parts[2], 1))}
	}
	p, err := vc.Load(repoDir(), filepath.Join(verifRoot(), "stubs"), overlay)
	if err != nil {
		fmt.Fprintln(os.Stderr, "load:", err)
		os.Exit(2)
	}
	fmt.Printf("loaded in %.1fs\n", time.Since(start).Seconds())
	dir := *keep
	if dir == "" {
		dir, _ = os.MkdirTemp("", "govc")
		defer os.RemoveAll(dir)
	} else {
		os.MkdirAll(dir, 0o755)
	}
	for _, pat := range fs.Args() {
		var fvs []*vc.FuncVC
		if *lemmas {
			for _, lm := range p.LemmaList {
				if lm.Name == pat || pat == "all" {
					fvs = append(fvs, p.VerifyLemma(lm))
				}
			}
		} else {
			fns := findFuncs(p, pat)
			if len(fns) == 0 {
				fmt.Println("no function matches", pat)
			}
			for _, fn := range fns {
				fvs = append(fvs, p.VerifyFunc(fn))
			}
		}
		for _, fv := range fvs {
			fmt.Printf("== %s: %d obligations, %d generator errors\n", fv.Fn, len(fv.Obls), len(fv.Errors))
			for _, e := range fv.Errors {
				fmt.Println("   ERROR:", e)
			}
			sub := filepath.Join(dir, sanitize(fv.Fn))
			os.MkdirAll(sub, 0o755)
			rs := discharge(fv.Obls, sub, *timeout, false)
			for i, r := range rs {
				ok := r.R.Status == "unsat"
				if r.O.ExpectSat {
					ok = r.R.Status != "unsat"
				}
				if r.O.Kind == "vacuity-ret" && !ok {
					fmt.Printf("   NOTE q%04d %-70s unreachable under the accumulated assumptions (%s)\n", i, r.O.Name, r.O.SrcLine)
					continue
				}
				mark := "ok  "
				if !ok {
					mark = "FAIL"
				}
				if !ok || *verbose {
					fmt.Printf("   %s q%04d %-70s %s (%s %.2fs) %v\n", mark, i, r.O.Name, r.R.Status, r.R.Solver, r.R.Seconds, r.O.Tags)
					if !ok && *verbose {
						fmt.Println(indent(r.R.Output, "        "))
					}
				}
			}
			if *verbose {
				for _, u := range fv.Used {
					fmt.Println("   uses:", u)
				}
			}
		}
	}
}

func sanitize(s string) string {
	r := strings.NewReplacer("/", "_", "(", "", ")", "", "*", "", " ", "_", "[", "_", "]", "_", "$", "_")
	return r.Replace(s)
}

func indent(s, pre string) string {
	return pre + strings.ReplaceAll(strings.TrimRight(s, "\n"), "\n", "\n"+pre)
}

// cmdReplay re-runs what a replay file records: the failed obligation's SMT query on the portfolio (when the file
// carries one) and the property's replay harness against /repo's current working tree (go test -overlay).
// Exit 1 when the violation is reproduced (the obligation still fails or a failing input is confirmed), 0 otherwise.
func cmdReplay(args []string) int {
	if len(args) != 1 {
		fmt.Fprintln(os.Stderr, "usage: govc replay <replay file>")
		return 2
	}
	var m map[string]interface{}
	if err := loadJSON(args[0], &m); err != nil {
		fmt.Fprintln(os.Stderr, "replay:", err)
		return 2
	}
	id, _ := m["property"].(string)
	fmt.Printf("replay: property=%s function=%v obligation=%v (%v)\n", id, m["function"], m["obligation"], m["status"])
	rc := 0
	if qf, _ := m["query_file"].(string); qf != "" {
		if b, err := os.ReadFile(qf); err == nil {
			dir, _ := os.MkdirTemp("", "govc-replay")
			defer os.RemoveAll(dir)
			r := smt.Solve(string(b), dir, "q", 30, false)
			fmt.Printf("replay: recorded query -> %s (%s, %.2fs)\n", r.Status, r.Solver, r.Seconds)
			if r.Status != "unsat" {
				rc = 1
			}
		}
	}
	root := verifRoot()
	if cfgs := loadReplayIndex(root)[id]; len(cfgs) > 0 {
		n := 0
		for _, cfg := range cfgs {
			confirmed, output := runReplayHarness(root, id, cfg, filepath.Join(root, "replay", cfg.Dir, "battery.json"))
			fmt.Println(output)
			n += len(confirmed)
		}
		if n > 0 {
			fmt.Printf("replay: %d failing input(s) confirmed on the real code\n", n)
			rc = 1
		} else {
			fmt.Println("replay: no failing input confirmed on the current tree")
		}
	} else {
		fmt.Println("replay: no replay harness for", id, "(the failed obligation and the solver output are in the replay file)")
	}
	return rc
}

// cmdList prints every function of the module that has a body (closures included) with the status of its contract:
// contract / inline / trusted / none.  "none" functions are verified only where a contracted caller inlines them.
func cmdList() {
	p, err := vc.Load(repoDir(), filepath.Join(verifRoot(), "stubs"), nil)
	if err != nil {
		fmt.Fprintln(os.Stderr, "load:", err)
		os.Exit(2)
	}
	var names []string
	for name, f := range p.Funcs {
		if !strings.Contains(name, vc.ModulePath) || len(f.Blocks) == 0 || f.Synthetic != "" {
			continue
		}
		names = append(names, name)
	}
	sort.Strings(names)
	for _, name := range names {
		f := p.Funcs[name]
		st := "none"
		if ct := p.ContractFor(f); ct != nil {
			switch {
			case ct.Trusted:
				st = "trusted"
			case ct.Inline:
				st = "inline"
			default:
				st = "contract"
			}
		}
		pos := p.Fset.Position(f.Pos())
		fmt.Printf("%-9s %s  (%s:%d)\n", st, strings.ReplaceAll(name, vc.ModulePath+"/", ""), filepath.Base(pos.Filename), pos.Line)
	}
}
