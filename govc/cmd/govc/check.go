package main

import (
	"sync"
	"context"
	"go/types"
	"encoding/json"
	"flag"
	"fmt"
	"os"
	"os/exec"
	"path/filepath"
	"sort"
	"strconv"
	"strings"
	"time"

	"golang.org/x/tools/go/ssa"

	"govc/internal/smt"
	"govc/internal/spec"
	"govc/internal/vc"
)

// Claims is the committed list of what each property's check must regenerate and discharge.
type Claims struct {
	Properties map[string]*PropClaim `json:"properties"`
}

type PropClaim struct {
	Functions []string `json:"functions"` // ssa full names under contract for this property
	Lemmas    []string `json:"lemmas"`
	// Clauses: stable names "<func>::<clause>" of contract-clause obligations (ensures / invariant / assigns / decreases / lemma)
	Clauses []string `json:"clauses"`
	// Undecided: obligations known not to discharge (never counted as proved), "<func>::<obligation name>"
	Undecided []string `json:"undecided,omitempty"`
	// Bounded stand-ins and paper steps, reported in evidence
	Notes []string `json:"notes,omitempty"`
	// External: proofs discharged by another checker (Lean), run on every check; SpecFunc/SpecText pin the contract-level
	// definition the external statement mirrors, so that the two cannot drift apart silently
	External []ExternalProof `json:"external,omitempty"`
}

type ExternalProof struct {
	Name     string   `json:"name"`
	Argv     []string `json:"argv"`
	SpecFunc string   `json:"spec_func,omitempty"`
	SpecText string   `json:"spec_text,omitempty"`
	Mirror   string   `json:"mirror_file,omitempty"`
	MirrorOf string   `json:"mirror_text,omitempty"`
}

type KnownFinding struct {
	Property   string `json:"property"`
	Obligation string `json:"obligation"` // "<func>::<clause>"
	Status     string `json:"status"`     // open | fixed
	Commit     string `json:"commit,omitempty"`
	Text       string `json:"text"`
}

func loadJSON(path string, v interface{}) error {
	b, err := os.ReadFile(path)
	if err != nil {
		return err
	}
	return json.Unmarshal(b, v)
}

// clauseName strips the per-return / per-site suffix: "ensures#valid@ret2" -> "ensures#valid".
func clauseName(name string) string {
	if i := strings.Index(name, "@"); i >= 0 {
		name = name[:i]
	}
	// trailing "#<n>" uniquifier added by the generator
	if j := strings.LastIndex(name, "#"); j >= 0 {
		if _, err := strconv.Atoi(name[j+1:]); err == nil && strings.Count(name, "#") > 1 {
			name = name[:j]
		}
	}
	return name
}

func isClauseKind(k string) bool {
	switch k {
	case "ensures", "assigns", "invariant-established", "invariant-preserved", "decreases", "lemma":
		return true
	}
	return false
}

func hasTag(tags []string, id string) bool {
	for _, t := range tags {
		if t == id {
			return true
		}
	}
	return false
}

// relevant decides whether an obligation of a claimed function belongs to property id:
// tagged with it, or untagged (safety, call preconditions, invariants, decreases).
func relevant(o *vc.Obligation, id string) bool {
	if len(o.Tags) == 0 {
		return true
	}
	return hasTag(o.Tags, id)
}

// propertyTargets derives the functions and lemmas serving a property from the contract tags.
func propertyTargets(p *vc.Prog, id string) (fns []*ssa.Function, lemmas []*spec.Lemma) {
	seen := map[string]bool{}
	for _, f := range p.Files {
		for _, fc := range f.Funcs {
			if fc.Extern || fc.Trusted {
				continue
			}
			tagged := false
			for _, e := range fc.Ensures {
				tagged = tagged || hasTag(e.Tags, id)
			}
			if fc.Assigns != nil {
				tagged = tagged || hasTag(fc.Assigns.Tags, id)
			}
			for _, l := range fc.Loops {
				for _, inv := range l.Invariants {
					tagged = tagged || hasTag(inv.Tags, id)
				}
			}
			for _, r := range fc.Requires {
				tagged = tagged || hasTag(r.Tags, id)
			}
			for _, r := range fc.Stream {
				tagged = tagged || hasTag(r.Tags, id)
			}
			if !tagged {
				continue
			}
			for name, fn := range p.Funcs {
				if name == fc.Key || (fn.Origin() != nil && fn.Origin().String() == fc.Key) {
					if !seen[name] && len(fn.Blocks) > 0 {
						seen[name] = true
						fns = append(fns, fn)
					}
				}
			}
		}
		for _, lm := range f.Lemmas {
			if hasTag(lm.Tags, id) && !lm.Axiom {
				lemmas = append(lemmas, lm)
			}
		}
	}
	sort.Slice(fns, func(i, j int) bool { return fns[i].String() < fns[j].String() })
	return
}

type oblReport struct {
	Func    string  `json:"func"`
	Name    string  `json:"name"`
	Kind    string  `json:"kind"`
	Status  string  `json:"status"`
	Solver  string  `json:"solver"`
	Seconds float64 `json:"seconds"`
	Clause  string  `json:"clause,omitempty"`
}

type checkOutcome struct {
	id          string
	obls        []oblResult
	genErrors   map[string][]string
	used        map[string]bool
	functions   []string
	dependencies []string
	lemmas      []string
	violations  []violation
	known       []string
	undecided   []string
	vacuityOK   int
	vacuityUnk  int
	vacuous     []string
	solverTime  float64
	preludeStatus string
	deadReturns   []string
	byBackend   map[string]int
}

type violation struct {
	Func, Obl, Status, Output, Why string
	Query                          string
	Clause                         string
	SrcLine                        string
}

func runProperty(p *vc.Prog, id string, claims *PropClaim, known []KnownFinding, dir string, timeoutS int, all bool) *checkOutcome {
	out := &checkOutcome{id: id, genErrors: map[string][]string{}, used: map[string]bool{}, byBackend: map[string]int{}}
	fns, lemmas := propertyTargets(p, id)
	var fvs []*vc.FuncVC
	present := map[string]bool{}
	for _, fn := range fns {
		fv := p.VerifyFunc(fn)
		fvs = append(fvs, fv)
		present[fn.String()] = true
		out.functions = append(out.functions, fn.String())
	}
	// a type whose methods carry stream / refinement contracts (dependencies call them, also through optional interfaces
	// such as io.StringWriter or io.ReaderFrom): every method declared on that type must be under contract, otherwise a
	// dependency can change the type's state through code no obligation covers
	{
		streamTypes := map[*types.Named]string{}
		for _, fn := range fns {
			ct := p.ContractFor(fn)
			if ct == nil || (len(ct.Stream) == 0 && ct.Implements == "") || fn.Signature.Recv() == nil {
				continue
			}
			if nt := recvNamed(fn.Signature.Recv().Type()); nt != nil {
				streamTypes[nt] = fn.String()
			}
		}
		var names []string
		for name := range p.Funcs {
			names = append(names, name)
		}
		sort.Strings(names)
		for _, name := range names {
			m := p.Funcs[name]
			if m.Signature.Recv() == nil || len(m.Blocks) == 0 || m.Synthetic != "" {
				continue
			}
			nt := recvNamed(m.Signature.Recv().Type())
			if nt == nil {
				continue
			}
			if by, ok := streamTypes[nt]; ok && p.ContractFor(m) == nil {
				out.violations = append(out.violations, violation{Func: m.String(), Obl: "contract", Status: "uncontracted-method",
					Why: "method of a type whose state carries a stream invariant (see " + shortName(by) + ") has no contract; callers in dependencies may reach it through an optional interface"})
			}
		}
	}
	for _, lm := range lemmas {
		fv := p.VerifyLemma(lm)
		fvs = append(fvs, fv)
		present["lemma "+lm.Name] = true
		out.lemmas = append(out.lemmas, lm.Name)
	}
	undecided := map[string]bool{}
	if claims != nil {
		for _, u := range claims.Undecided {
			undecided[u] = true
		}
	}
	isKnown := func(fn, clause string) *KnownFinding {
		for i := range known {
			k := &known[i]
			if k.Property == id && k.Status == "open" && k.Obligation == fn+"::"+clause {
				return k
			}
		}
		return nil
	}
	var all_ []*vc.Obligation
	generated := map[string]bool{}
	for _, fv := range fvs {
		for _, u := range fv.Used {
			out.used[u] = true
		}
		if len(fv.Errors) > 0 {
			out.genErrors[fv.Fn] = fv.Errors
		}
		for _, o := range fv.Obls {
			if !relevant(o, id) {
				continue
			}
			if o.Kind == "vacuity-ret" && !all {
				continue // per-return canaries run in the thorough tier only
			}
			generated[fv.Fn+"::"+clauseName(o.Name)] = true
			if undecided[fv.Fn+"::"+o.Name] || undecided[fv.Fn+"::"+clauseName(o.Name)] {
				out.undecided = append(out.undecided, fv.Fn+"::"+o.Name)
				continue
			}
			all_ = append(all_, o)
		}
	}
	// dependency closure (one level): the proofs above use the post-conditions of the in-repo callees they call, whatever
	// property those clauses are tagged with.  Their post-condition obligations are therefore part of this property's check
	// as well: a change that breaks one of them is reported here, not only by the property that owns the clause.
	{
		inCheck := map[string]bool{}
		for _, fn := range fns {
			inCheck[fn.String()] = true
		}
		var deps []string
		for u := range out.used {
			if strings.HasPrefix(u, "contract:") {
				name := strings.TrimPrefix(u, "contract:")
				if !inCheck[name] {
					deps = append(deps, name)
				}
			}
		}
		sort.Strings(deps)
		for _, name := range deps {
			fn := p.Funcs[name]
			if fn == nil || len(fn.Blocks) == 0 {
				continue
			}
			ct := p.ContractFor(fn)
			if ct == nil || ct.Extern || ct.Trusted || ct.Inline {
				continue
			}
			fv := p.VerifyFunc(fn)
			out.dependencies = append(out.dependencies, name)
			if len(fv.Errors) > 0 {
				out.genErrors[fv.Fn] = fv.Errors
			}
			for _, o := range fv.Obls {
				if o.Kind != "ensures" {
					continue
				}
				generated[fv.Fn+"::"+clauseName(o.Name)] = true
				all_ = append(all_, o)
			}
		}
	}
	// the fixed prelude (theory of byte strings, slices, interfaces) must be satisfiable on its own
	pr := smt.Quick(smt.Prelude+"(check-sat)\n", dir, "prelude", 3)
	out.preludeStatus = pr.Status
	if pr.Status == "unsat" {
		out.violations = append(out.violations, violation{Func: "prelude", Obl: "vacuity:prelude-consistent", Status: "VACUOUS", Output: pr.Output, Why: "the fixed SMT prelude is inconsistent: every proof would be vacuous"})
	}
	rs := discharge(all_, dir, timeoutS, all)
	for _, r := range rs {
		out.solverTime += r.R.Seconds
		fn := r.O.Func
		if r.O.ExpectSat && r.O.Kind == "vacuity-ret" {
			if r.R.Status == "unsat" {
				out.deadReturns = append(out.deadReturns, shortName(fn)+"::"+r.O.Name+" @ "+r.O.SrcLine)
			}
			continue
		}
		if r.O.ExpectSat {
			switch r.R.Status {
			case "unsat":
				out.vacuous = append(out.vacuous, fn)
			case "sat":
				out.vacuityOK++
			default:
				out.vacuityUnk++
			}
			continue
		}
		out.obls = append(out.obls, r)
		if r.R.Status == "unsat" {
			out.byBackend[r.R.Solver]++
			continue
		}
		if k := isKnown(fn, clauseName(r.O.Name)); k != nil {
			out.known = append(out.known, fmt.Sprintf("KNOWN-FINDING: property=%s %s::%s: %s", id, shortName(fn), clauseName(r.O.Name), k.Text))
			continue
		}
		if r.R.Status == "error" && len(out.genErrors[fn]) > 0 {
			// a query the solver rejects because generation of this function failed: reported once, as the generator error
			continue
		}
		out.violations = append(out.violations, violation{Func: fn, Obl: r.O.Name, Status: r.R.Status, Output: r.R.Output, Query: r.O.Query(smt.Prelude), Clause: r.O.Clause, SrcLine: r.O.SrcLine,
			Why: "obligation not discharged (" + r.R.Status + ")"})
	}
	// external proofs (Lean)
	if claims != nil {
		for _, ep := range claims.External {
			t0 := time.Now()
			status, output := "unsat", ""
			if ep.SpecFunc != "" {
				pf := p.Pures[ep.SpecFunc]
				if pf == nil || pf.Body == nil || pf.Body.String() != ep.SpecText {
					status = "drift"
					got := "<missing>"
					if pf != nil && pf.Body != nil {
						got = pf.Body.String()
					}
					output = "the contract-level definition of " + ep.SpecFunc + " is no longer the one the external proof mirrors:\n  now:      " + got + "\n  recorded: " + ep.SpecText
				}
			}
			if status == "unsat" && ep.Mirror != "" {
				if b, err := os.ReadFile(ep.Mirror); err != nil || !strings.Contains(string(b), ep.MirrorOf) {
					status, output = "drift", "the external proof file no longer contains the mirrored definition: "+ep.MirrorOf
				}
			}
			if status == "unsat" {
				cctx, cancel := context.WithTimeout(context.Background(), 300*time.Second)
				cmd := exec.CommandContext(cctx, ep.Argv[0], ep.Argv[1:]...)
				ob, err := cmd.CombinedOutput()
				cancel()
				if err != nil || len(strings.TrimSpace(string(ob))) > 0 {
					status, output = "failed", string(ob)
					if err != nil {
						output += "\n" + err.Error()
					}
				}
			}
			o := &vc.Obligation{Name: "external:" + ep.Name, Kind: "lemma", Func: "lemma " + ep.Name, Clause: strings.Join(ep.Argv, " ")}
			r := oblResult{o, smt.Result{Status: status, Solver: ep.Argv[0], Seconds: time.Since(t0).Seconds(), Output: output}}
			out.obls = append(out.obls, r)
			out.lemmas = append(out.lemmas, "external:"+ep.Name)
			present["lemma external:"+ep.Name] = true
			generated[o.Func+"::"+clauseName(o.Name)] = true
			if status == "unsat" {
				out.byBackend[ep.Argv[0]]++
			} else {
				out.violations = append(out.violations, violation{Func: "lemma " + ep.Name, Obl: "external:" + ep.Name, Status: status, Output: output, Why: "external proof not accepted (" + status + ")"})
			}
		}
	}
	// a function whose every return is unreachable under its assumptions is vacuously verified; this is
	// only meaningful when all its other obligations passed (a failed obligation is assumed afterwards,
	// which by itself can make later points unreachable)
	failedFn := map[string]bool{}
	for _, v := range out.violations {
		failedFn[v.Func] = true
	}
	var realVacuous []string
	for _, fn := range out.vacuous {
		if !failedFn[fn] {
			realVacuous = append(realVacuous, fn)
			out.violations = append(out.violations, violation{Func: fn, Obl: "vacuity:return-reachable", Status: "VACUOUS", Why: "the assumptions of this function are contradictory (no return is reachable)"})
		}
	}
	out.vacuous = realVacuous
	// generator errors in claimed functions are failures, not silent drops
	var gk []string
	for fn := range out.genErrors {
		gk = append(gk, fn)
	}
	sort.Strings(gk)
	for _, fn := range gk {
		out.violations = append(out.violations, violation{Func: fn, Obl: "generation", Status: "generator-error", Output: strings.Join(out.genErrors[fn], "\n"), Why: "the obligations of this function could not be generated"})
	}
	// every claimed clause must have been regenerated
	if claims != nil {
		for _, cl := range claims.Clauses {
			if !generated[cl] {
				parts := strings.SplitN(cl, "::", 2)
				out.violations = append(out.violations, violation{Func: parts[0], Obl: parts[len(parts)-1], Status: "missing", Why: "claimed obligation was not regenerated (function or contract clause no longer attaches)"})
			}
		}
		for _, fn := range claims.Functions {
			if !present[fn] {
				out.violations = append(out.violations, violation{Func: fn, Obl: "function", Status: "missing", Why: "claimed function under contract not found in the current tree"})
			}
		}
		for _, lm := range claims.Lemmas {
			if !present["lemma "+lm] {
				out.violations = append(out.violations, violation{Func: "lemma " + lm, Obl: "lemma", Status: "missing", Why: "claimed lemma not found"})
			}
		}
	}
	return out
}

func recvNamed(t types.Type) *types.Named {
	if pt, ok := types.Unalias(t).(*types.Pointer); ok {
		t = pt.Elem()
	}
	nt, _ := types.Unalias(t).(*types.Named)
	return nt
}

func shortName(s string) string {
	return strings.ReplaceAll(s, vc.ModulePath+"/", "")
}

func cmdCheck(args []string) int {
	fs := flag.NewFlagSet("check", flag.ExitOnError)
	tier := fs.String("tier", "", "quick|thorough")
	writeClaims := fs.Bool("write-claims", false, "regenerate claims.json entries for the given properties from the current (known-good) tree")
	keep := fs.String("keep", "", "keep queries in this directory")
	fs.Parse(args)
	ids := fs.Args()
	if len(ids) == 0 {
		fmt.Fprintln(os.Stderr, "usage: govc check [--tier quick|thorough] <property id>...")
		return 2
	}
	if *tier == "" {
		*tier = os.Getenv("VERIF_TIER")
	}
	if *tier == "" {
		*tier = "quick"
	}
	seed := 0
	if s := os.Getenv("VERIF_SEED"); s != "" {
		seed, _ = strconv.Atoi(s)
	}
	smt.Seed = seed
	root := verifRoot()
	start := time.Now()
	p, err := vc.Load(repoDir(), filepath.Join(root, "stubs"), nil)
	for attempt := 1; err != nil && attempt < 3; attempt++ {
		// go/packages runs the go command; a transient failure of that step (seen once under heavy load) is retried
		fmt.Fprintln(os.Stderr, "govc: load failed, retrying:", err)
		time.Sleep(3 * time.Second)
		p, err = vc.Load(repoDir(), filepath.Join(root, "stubs"), nil)
	}
	if err != nil {
		// a tree that does not load cannot be checked; this is reported as a failure of the check itself
		fmt.Println("govc: cannot load", repoDir(), ":", err)
		return 2
	}
	loadS := time.Since(start).Seconds()
	var claims Claims
	_ = loadJSON(filepath.Join(root, "claims.json"), &claims)
	if claims.Properties == nil {
		claims.Properties = map[string]*PropClaim{}
	}
	var known []KnownFinding
	_ = loadJSON(filepath.Join(root, "known_findings.json"), &known)
	dir := *keep
	if dir == "" {
		dir, _ = os.MkdirTemp("", "govc")
		defer os.RemoveAll(dir)
	} else {
		os.MkdirAll(dir, 0o755)
	}
	// generous limits: the slowest obligations take about 7 s on an idle machine; under load (16 checks in a row, or the
	// selftest corpus in parallel) they must not turn into timeouts, which would be false alarms
	timeoutS, all := 90, false
	if *tier == "thorough" {
		timeoutS, all = 120, true
	}
	rc := 0
	for _, id := range ids {
		t0 := time.Now()
		sub := filepath.Join(dir, id)
		os.MkdirAll(sub, 0o755)
		pc := claims.Properties[id]
		out := runProperty(p, id, pc, known, sub, timeoutS, all)
		if *writeClaims {
			npc := &PropClaim{Functions: out.functions, Lemmas: out.lemmas}
			if pc != nil {
				npc.Undecided = pc.Undecided
				npc.Notes = pc.Notes
				npc.External = pc.External
			}
			set := map[string]bool{}
			for _, r := range out.obls {
				if isClauseKind(r.O.Kind) && r.R.Status == "unsat" {
					set[r.O.Func+"::"+clauseName(r.O.Name)] = true
				}
			}
			for k := range set {
				npc.Clauses = append(npc.Clauses, k)
			}
			sort.Strings(npc.Clauses)
			claims.Properties[id] = npc
		}
		for _, k := range out.known {
			fmt.Println(k)
		}
		// thorough: selftest mutants of this property
		var st *selftestSummary
		if *tier == "thorough" {
			st = runSelftest(root, id, claims, known, sub)
			for _, m := range st.Missed {
				out.violations = append(out.violations, violation{Func: "selftest", Obl: m, Status: "mutant-survived", Why: "a must-fail mutant of the selftest corpus was not detected (the machinery lost strength)"})
			}
		}
		wall := time.Since(t0).Seconds() + loadS
		writeEvidence(root, id, *tier, seed, out, st, wall)
		for _, v := range out.violations {
			path := writeReplay(root, id, v)
			suffix := " no-failing-input-found"
			if confirmed := tryReplay(root, id, v, path); confirmed {
				suffix = ""
			}
			fmt.Printf("VIOLATION property=%s replay=%s%s\n", id, path, suffix)
			fmt.Printf("  obligation: %s::%s (%s) %s\n", shortName(v.Func), v.Obl, v.Status, v.Why)
			rc = 1
		}
		nd := 0
		for _, r := range out.obls {
			if r.R.Status == "unsat" {
				nd++
			}
		}
		fmt.Printf("%s: %d/%d obligations discharged over %d functions + %d lemmas, %d known findings, %d undecided (not claimed), vacuity sat/unknown %d/%d, %.1fs\n",
			id, nd, len(out.obls), len(out.functions), len(out.lemmas), len(out.known), len(out.undecided), out.vacuityOK, out.vacuityUnk, wall)
	}
	if *writeClaims {
		b, _ := json.MarshalIndent(claims, "", " ")
		os.WriteFile(filepath.Join(root, "claims.json"), append(b, '\n'), 0o644)
	}
	return rc
}

// candidateModel asks the solver for a counterexample candidate: the failed query with every
// quantified assertion dropped (so the model may violate an axiom; it is a candidate to replay,
// not a proof of violation).
func candidateModel(query string) string {
	if query == "" {
		return ""
	}
	var b strings.Builder
	for _, ln := range strings.Split(query, "\n") {
		if strings.HasPrefix(ln, "(assert") && (strings.Contains(ln, "(forall ") || strings.Contains(ln, "(exists ")) {
			continue
		}
		if strings.HasPrefix(ln, "(get-value") {
			continue
		}
		b.WriteString(ln)
		b.WriteString("\n")
	}
	b.WriteString("(get-model)\n")
	dir, _ := os.MkdirTemp("", "govc-ce")
	defer os.RemoveAll(dir)
	r := smt.Quick(b.String(), dir, "ce", 5)
	if r.Status != "sat" {
		return ""
	}
	// keep the interesting part: parameters and loaded values
	var keep []string
	lines := strings.Split(r.Output, "\n")
	for i := 0; i < len(lines); i++ {
		ln := lines[i]
		t := strings.ReplaceAll(ln, "|", "")
		if strings.Contains(t, "define-fun p.") || strings.Contains(t, "define-fun ld!") || strings.Contains(t, "define-fun l.") {
			keep = append(keep, strings.TrimSpace(ln))
			if i+1 < len(lines) {
				keep = append(keep, "    "+strings.TrimSpace(lines[i+1]))
			}
		}
	}
	if len(keep) > 60 {
		keep = keep[:60]
	}
	return strings.Join(keep, "\n")
}

func writeReplay(root, id string, v violation) string {
	dir := filepath.Join(root, "replays", id)
	os.MkdirAll(dir, 0o755)
	name := sanitize(shortName(v.Func) + "__" + v.Obl)
	if len(name) > 120 {
		name = name[:120]
	}
	path := filepath.Join(dir, name+".json")
	qpath := ""
	if v.Query != "" {
		qpath = filepath.Join(dir, name+".smt2")
		os.WriteFile(qpath, []byte(v.Query), 0o644)
	}
	m := map[string]interface{}{
		"property": id, "function": v.Func, "obligation": v.Obl, "status": v.Status, "reason": v.Why,
		"clause": v.Clause, "source_line": v.SrcLine, "solver_output": v.Output, "query_file": qpath,
		"failing_input": nil, "replay_confirmed": false,
		"solver_counterexample_candidate": candidateModel(v.Query),
	}
	b, _ := json.MarshalIndent(m, "", " ")
	os.WriteFile(path, append(b, '\n'), 0o644)
	return path
}

func writeEvidence(root, id, tier string, seed int, out *checkOutcome, st *selftestSummary, wall float64) {
	os.MkdirAll(filepath.Join(root, "evidence"), 0o755)
	nd := 0
	var samples []oblReport
	for _, r := range out.obls {
		if r.R.Status == "unsat" {
			nd++
		}
		if len(samples) < 12 && isClauseKind(r.O.Kind) {
			samples = append(samples, oblReport{Func: shortName(r.O.Func), Name: r.O.Name, Kind: r.O.Kind, Status: r.R.Status, Solver: r.R.Solver, Seconds: r.R.Seconds, Clause: r.O.Clause})
		}
	}
	var trusted, assumptions []string
	var uk []string
	for u := range out.used {
		uk = append(uk, u)
	}
	sort.Strings(uk)
	for _, u := range uk {
		switch {
		case strings.HasPrefix(u, "contract:"):
			// in-repo contract: proved separately by the property that owns it; listed for traceability
			trusted = append(trusted, "callee-"+u+" (proved by its own obligations, see functions_under_contract of the owning property)")
		default:
			trusted = append(trusted, u)
		}
	}
	assumptions = append(assumptions,
		"integers: mathematical Int with exact wrap-around on every + - * conversion (64-bit int/uint, GOARCH amd64/arm64)",
		"allocation never fails; stack depth unbounded; no goroutines in verified code",
		"calls: callee contract (in-repo: proved separately; dependencies: assumed, listed in trusted_base) or inlined real body of loop-free in-repo callees",
		"floats, bit operations, rune decoding, map iteration order: uninterpreted / nondeterministic",
		"package-level error sentinels are non-nil and never reassigned (checked by SSA scan)",
	)
	// the slowest obligations (a margin report: an obligation near the limit is the one that will fail under load)
	slow := append([]oblResult(nil), out.obls...)
	sort.Slice(slow, func(i, j int) bool { return slow[i].R.Seconds > slow[j].R.Seconds })
	var slowest []string
	for i := 0; i < len(slow) && i < 5; i++ {
		slowest = append(slowest, fmt.Sprintf("%.1fs %s %s::%s", slow[i].R.Seconds, slow[i].R.Solver, shortName(slow[i].O.Func), slow[i].O.Name))
	}
	level := "proof"
	cov := map[string]interface{}{
		"slowest_obligations":      slowest,
		"obligations":              len(out.obls),
		"discharged":               nd,
		"checker_cmd":              fmt.Sprintf("/verif/bin/govc check --tier %s %s  (VC generation over go/ssa of /repo's working tree; portfolio z3 5.1.0 / cvc5 1.0.3 / z3 4.8.12)", tier, id),
		"trusted_base":             trusted,
		"functions_under_contract": mapShort(out.functions),
		"callee_postconditions_rechecked (in-repo callees whose contracts these proofs use: their post-condition obligations are part of this check)": mapShort(out.dependencies),
		"lemmas":                   out.lemmas,
		"by_backend":               out.byBackend,
		"solver_time_s":            round2(out.solverTime),
		"undecided_not_claimed":    out.undecided,
		"known_findings_reported":  out.known,
		"returns_unreachable_under_assumptions (thorough tier; dead code or contradictory contracts on the path — reviewed by hand)": out.deadReturns,
		"vacuity_checks":           map[string]interface{}{"return_reachable_sat": out.vacuityOK, "return_reachable_unknown": out.vacuityUnk, "vacuous": len(out.vacuous), "prelude_consistency": out.preludeStatus},
		"samples":                  samples,
		"generator_errors":         out.genErrors,
	}
	if st != nil {
		cov["selftest"] = st
	}
	ev := map[string]interface{}{
		"property_id": id, "tier": tier, "seed": seed, "level": level, "coverage": cov,
		"assumptions": assumptions, "wall_s": round2(wall), "violations": len(out.violations),
	}
	b, _ := json.MarshalIndent(ev, "", " ")
	os.WriteFile(filepath.Join(root, "evidence", id+".json"), append(b, '\n'), 0o644)
}

func mapShort(xs []string) []string {
	out := make([]string, len(xs))
	for i, x := range xs {
		out[i] = shortName(x)
	}
	return out
}

func round2(f float64) float64 { return float64(int(f*100+0.5)) / 100 }

// replayCfg: /verif/replay/index.json maps a property to its replay harness.
type replayCfg struct {
	Dir       string `json:"dir"`       // directory under /verif/replay with replay_test.go, target.txt, battery.json
	Direction string `json:"direction"` // only REPLAY-CONFIRMED lines with this direction count ("" = any)
}

// tryReplay runs the property's replay harness (a Go test injected into /repo's current working
// tree with `go test -overlay`, nothing is written to /repo) on the witness battery and on the
// solver's model when there is one.  It returns true when a concrete failing input was confirmed
// against the real code, and records it in the replay file.
func loadReplayIndex(root string) map[string][]replayCfg {
	var raw map[string]json.RawMessage
	if err := loadJSON(filepath.Join(root, "replay", "index.json"), &raw); err != nil {
		return nil
	}
	out := map[string][]replayCfg{}
	for k, v := range raw {
		var many []replayCfg
		if json.Unmarshal(v, &many) == nil {
			out[k] = many
			continue
		}
		var one replayCfg
		if json.Unmarshal(v, &one) == nil {
			out[k] = []replayCfg{one}
		}
	}
	return out
}

func tryReplay(root, id string, v violation, path string) bool {
	cfgs := loadReplayIndex(root)[id]
	if len(cfgs) == 0 {
		return false
	}
	var confirmed, outputs, harnesses []string
	for _, cfg := range cfgs {
		cf, output := runReplayHarness(root, id, cfg, filepath.Join(root, "replay", cfg.Dir, "battery.json"))
		confirmed = append(confirmed, cf...)
		outputs = append(outputs, output)
		harnesses = append(harnesses, filepath.Join(root, "replay", cfg.Dir, "replay_test.go"))
	}
	var m map[string]interface{}
	if err := loadJSON(path, &m); err != nil {
		m = map[string]interface{}{}
	}
	m["replay_harness"] = strings.Join(harnesses, ", ")
	m["replay_output"] = strings.Join(outputs, "\n")
	if len(confirmed) > 0 {
		m["replay_confirmed"] = true
		m["failing_input"] = confirmed
	}
	b, _ := json.MarshalIndent(m, "", " ")
	os.WriteFile(path, append(b, '\n'), 0o644)
	return len(confirmed) > 0
}

var replayCache = map[string][2]interface{}{}
var replayMu sync.Mutex

func runReplayHarness(root, id string, cfg replayCfg, witness string) ([]string, string) {
	key := cfg.Dir + "|" + cfg.Direction + "|" + witness
	replayMu.Lock()
	c, ok := replayCache[key]
	replayMu.Unlock()
	if ok {
		return c[0].([]string), c[1].(string)
	}
	dir := filepath.Join(root, "replay", cfg.Dir)
	tb, err := os.ReadFile(filepath.Join(dir, "target.txt"))
	if err != nil {
		return nil, err.Error()
	}
	target := strings.TrimSpace(string(tb))
	tmp, _ := os.MkdirTemp("", "govc-replay")
	defer os.RemoveAll(tmp)
	ov := map[string]map[string]string{"Replace": {filepath.Join(repoDir(), target, "zz_verif_replay_test.go"): filepath.Join(dir, "replay_test.go")}}
	ob, _ := json.Marshal(ov)
	ovPath := filepath.Join(tmp, "ov.json")
	os.WriteFile(ovPath, ob, 0o644)
	cmd := exec.Command("go", "test", "-overlay", ovPath, "-vet=off", "-timeout", "60s", "-count=1", "-v", "-run", "TestVerifReplay", "./"+target)
	cmd.Dir = repoDir()
	cmd.Env = append(os.Environ(), "GOFLAGS=-mod=readonly", "GOPROXY=off", "GOSUMDB=off", "GOTOOLCHAIN=local", "VERIF_WITNESS="+witness, "VERIF_PROPERTY="+id)
	out, _ := cmd.CombinedOutput()
	var confirmed []string
	var keep []string
	for _, ln := range strings.Split(string(out), "\n") {
		if strings.HasPrefix(ln, "REPLAY-") {
			keep = append(keep, ln)
		}
		if strings.HasPrefix(ln, "REPLAY-CONFIRMED") {
			if cfg.Direction == "" || strings.Contains(ln, "direction="+cfg.Direction) {
				confirmed = append(confirmed, ln)
			}
		}
	}
	if len(keep) == 0 {
		keep = append(keep, trimTail(string(out), 2000))
	}
	res := strings.Join(keep, "\n")
	replayMu.Lock()
	replayCache[key] = [2]interface{}{confirmed, res}
	replayMu.Unlock()
	return confirmed, res
}

func trimTail(s string, n int) string {
	if len(s) > n {
		return s[len(s)-n:]
	}
	return s
}

type selftestSummary struct {
	Tried         int      `json:"mutants_tried"`
	Caught        int      `json:"mutants_caught"`
	NeutralTried  int      `json:"neutral_edits_tried"`
	NeutralPassed int      `json:"neutral_edits_passed"`
	Missed        []string `json:"missed"`
	Detail        []string `json:"detail"`
}
