// Package spec parses the contract language (Gobra-style //@ comments).
package spec

import (
	"fmt"
	"strconv"
	"strings"
	"unicode"
)

// ---------------------------------------------------------------- expressions

type Expr interface{ String() string }

type (
	Ident   struct{ Name string }
	IntLit  struct{ Val string }
	StrLit  struct{ Val string }
	BoolLit struct{ Val bool }
	NilLit  struct{}
	Unary   struct {
		Op string
		X  Expr
	}
	Binary struct {
		Op   string
		X, Y Expr
	}
	Cond  struct{ C, A, B Expr }
	Call  struct {
		Fun  Expr // Ident or Select (pkg.fn or method)
		Args []Expr
	}
	Index struct{ X, I Expr }
	SliceE struct {
		X      Expr
		Lo, Hi Expr // may be nil
	}
	Select struct {
		X   Expr
		Sel string
	}
	Quant struct {
		Forall   bool
		Vars     []Param
		Body     Expr
		Triggers [][]Expr // optional: {t1, t2} {t3} after "::"
	}
	Old     struct{ X Expr }
	TypeIs  struct { // typeOf(x) == T  written  x is T
		X Expr
		T string
	}
	Cast struct { // x.(T)
		X Expr
		T string
	}
	Let struct {
		Name string
		Val  Expr
		Body Expr
	}
)

type Param struct {
	Name string
	Type string // Go type syntax or spec sort
}

func (e *Ident) String() string   { return e.Name }
func (e *IntLit) String() string  { return e.Val }
func (e *StrLit) String() string  { return strconv.Quote(e.Val) }
func (e *BoolLit) String() string { return fmt.Sprint(e.Val) }
func (e *NilLit) String() string  { return "nil" }
func (e *Unary) String() string   { return e.Op + e.X.String() }
func (e *Binary) String() string  { return "(" + e.X.String() + " " + e.Op + " " + e.Y.String() + ")" }
func (e *Cond) String() string {
	return "(" + e.C.String() + " ? " + e.A.String() + " : " + e.B.String() + ")"
}
func (e *Call) String() string {
	var a []string
	for _, x := range e.Args {
		a = append(a, x.String())
	}
	return e.Fun.String() + "(" + strings.Join(a, ", ") + ")"
}
func (e *Index) String() string { return e.X.String() + "[" + e.I.String() + "]" }
func (e *SliceE) String() string {
	lo, hi := "", ""
	if e.Lo != nil {
		lo = e.Lo.String()
	}
	if e.Hi != nil {
		hi = e.Hi.String()
	}
	return e.X.String() + "[" + lo + ":" + hi + "]"
}
func (e *Select) String() string { return e.X.String() + "." + e.Sel }
func (e *Quant) String() string {
	q := "exists"
	if e.Forall {
		q = "forall"
	}
	var v []string
	for _, p := range e.Vars {
		v = append(v, p.Name+" "+p.Type)
	}
	return "(" + q + " " + strings.Join(v, ", ") + " :: " + e.Body.String() + ")"
}
func (e *Old) String() string    { return "old(" + e.X.String() + ")" }
func (e *TypeIs) String() string { return "(" + e.X.String() + " is " + e.T + ")" }
func (e *Cast) String() string   { return e.X.String() + ".(" + e.T + ")" }
func (e *Let) String() string {
	return "(let " + e.Name + " = " + e.Val.String() + " in " + e.Body.String() + ")"
}

// ---------------------------------------------------------------- lexer

type tok struct {
	kind string // id int str char op eof
	val  string
	pos  int
}

type lexer struct {
	src  string
	toks []tok
	p    int
}

var ops = []string{"<==>", "==>", "::", "&&", "||", "==", "!=", "<=", ">=", "++", "(", ")", "[", "]", "{", "}", ",", ".", ":", "?", "+", "-", "*", "/", "%", "<", ">", "!", "=", "#", "@"}

func lex(src string) ([]tok, error) {
	var out []tok
	i := 0
	for i < len(src) {
		c := src[i]
		switch {
		case c == ' ' || c == '\t' || c == '\n' || c == '\r':
			i++
		case c == '/' && i+1 < len(src) && src[i+1] == '/':
			for i < len(src) && src[i] != '\n' {
				i++
			}
		case c == '&' && i+1 < len(src) && (unicode.IsLetter(rune(src[i+1])) || src[i+1] == '_') && (i == 0 || src[i-1] != '&'):
			// &x: the address of a local variable that lives in a cell (an identifier named "&x")
			j := i + 1
			for j < len(src) && (unicode.IsLetter(rune(src[j])) || unicode.IsDigit(rune(src[j])) || src[j] == '_') {
				j++
			}
			out = append(out, tok{"id", src[i:j], i})
			i = j
		case unicode.IsLetter(rune(c)) || c == '_':
			j := i
			for j < len(src) && (unicode.IsLetter(rune(src[j])) || unicode.IsDigit(rune(src[j])) || src[j] == '_' || src[j] == '$') {
				j++
			}
			out = append(out, tok{"id", src[i:j], i})
			i = j
		case c >= '0' && c <= '9':
			j := i
			for j < len(src) && (src[j] >= '0' && src[j] <= '9' || src[j] == 'x' || src[j] >= 'a' && src[j] <= 'f' || src[j] >= 'A' && src[j] <= 'F' || src[j] == '_') {
				j++
			}
			out = append(out, tok{"int", src[i:j], i})
			i = j
		case c == '"':
			j := i + 1
			for j < len(src) && src[j] != '"' {
				if src[j] == '\\' {
					j++
				}
				j++
			}
			if j >= len(src) {
				return nil, fmt.Errorf("unterminated string at %d", i)
			}
			s, err := strconv.Unquote(src[i : j+1])
			if err != nil {
				return nil, fmt.Errorf("bad string %s: %v", src[i:j+1], err)
			}
			out = append(out, tok{"str", s, i})
			i = j + 1
		case c == '`':
			// raw string, as in Go
			j := i + 1
			for j < len(src) && src[j] != '`' {
				j++
			}
			if j >= len(src) {
				return nil, fmt.Errorf("unterminated raw string at %d", i)
			}
			out = append(out, tok{"str", src[i+1 : j], i})
			i = j + 1
		case c == '\'':
			j := i + 1
			for j < len(src) && src[j] != '\'' {
				if src[j] == '\\' {
					j++
				}
				j++
			}
			r, _, _, err := strconv.UnquoteChar(src[i+1:j], '\'')
			if err != nil {
				return nil, fmt.Errorf("bad char at %d", i)
			}
			out = append(out, tok{"int", strconv.Itoa(int(r)), i})
			i = j + 1
		default:
			matched := false
			for _, o := range ops {
				if strings.HasPrefix(src[i:], o) {
					out = append(out, tok{"op", o, i})
					i += len(o)
					matched = true
					break
				}
			}
			if !matched {
				return nil, fmt.Errorf("unexpected character %q at %d in %q", c, i, src)
			}
		}
	}
	out = append(out, tok{"eof", "", len(src)})
	return out, nil
}

func (l *lexer) peek() tok { return l.toks[l.p] }
func (l *lexer) next() tok { t := l.toks[l.p]; l.p++; return t }
func (l *lexer) isOp(s string) bool {
	t := l.peek()
	return t.kind == "op" && t.val == s
}
func (l *lexer) isID(s string) bool {
	t := l.peek()
	return t.kind == "id" && t.val == s
}
func (l *lexer) expectOp(s string) error {
	if !l.isOp(s) {
		return fmt.Errorf("expected %q, got %q at %d in %q", s, l.peek().val, l.peek().pos, l.src)
	}
	l.p++
	return nil
}

// ParseExpr parses one spec expression.
func ParseExpr(src string) (Expr, error) {
	toks, err := lex(src)
	if err != nil {
		return nil, err
	}
	l := &lexer{src: src, toks: toks}
	e, err := l.expr(0)
	if err != nil {
		return nil, err
	}
	if l.peek().kind != "eof" {
		return nil, fmt.Errorf("trailing input %q at %d in %q", l.peek().val, l.peek().pos, src)
	}
	return e, nil
}

var binPrec = map[string]int{
	"<==>": 1, "==>": 2, "||": 4, "&&": 5,
	"==": 6, "!=": 6, "<": 6, "<=": 6, ">": 6, ">=": 6,
	"+": 7, "-": 7, "++": 7, "*": 8, "/": 8, "%": 8,
}

func (l *lexer) expr(minPrec int) (Expr, error) {
	// quantifiers and let bind loosest
	if l.isID("forall") || l.isID("exists") {
		fa := l.next().val == "forall"
		vars, err := l.params("::")
		if err != nil {
			return nil, err
		}
		if err := l.expectOp("::"); err != nil {
			return nil, err
		}
		var trigs [][]Expr
		for l.isOp("{") {
			l.next()
			var tr []Expr
			for !l.isOp("}") {
				te, err := l.expr(3)
				if err != nil {
					return nil, err
				}
				tr = append(tr, te)
				if l.isOp(",") {
					l.next()
				}
			}
			l.next()
			trigs = append(trigs, tr)
		}
		body, err := l.expr(0)
		if err != nil {
			return nil, err
		}
		return &Quant{Forall: fa, Vars: vars, Body: body, Triggers: trigs}, nil
	}
	if l.isID("let") {
		l.next()
		name := l.next().val
		if err := l.expectOp("="); err != nil {
			return nil, err
		}
		v, err := l.expr(3)
		if err != nil {
			return nil, err
		}
		if !l.isID("in") {
			return nil, fmt.Errorf("expected 'in' in let at %d in %q", l.peek().pos, l.src)
		}
		l.next()
		body, err := l.expr(0)
		if err != nil {
			return nil, err
		}
		return &Let{Name: name, Val: v, Body: body}, nil
	}
	lhs, err := l.unary()
	if err != nil {
		return nil, err
	}
	for {
		t := l.peek()
		if t.kind == "op" && t.val == "?" && minPrec <= 3 {
			l.next()
			a, err := l.expr(3)
			if err != nil {
				return nil, err
			}
			if err := l.expectOp(":"); err != nil {
				return nil, err
			}
			b, err := l.expr(3)
			if err != nil {
				return nil, err
			}
			lhs = &Cond{lhs, a, b}
			continue
		}
		if t.kind == "id" && t.val == "is" && minPrec <= 6 {
			l.next()
			ty, err := l.typeText(map[string]bool{")": true, "&&": true, "||": true, "==>": true, ",": true, "?": true, ":": true})
			if err != nil {
				return nil, err
			}
			lhs = &TypeIs{lhs, ty}
			continue
		}
		if t.kind != "op" {
			break
		}
		p, ok := binPrec[t.val]
		if !ok || p < minPrec {
			break
		}
		l.next()
		var rhs Expr
		if t.val == "==>" || t.val == "<==>" {
			rhs, err = l.expr(p) // right assoc
		} else {
			rhs, err = l.expr(p + 1)
		}
		if err != nil {
			return nil, err
		}
		lhs = &Binary{t.val, lhs, rhs}
	}
	return lhs, nil
}

func (l *lexer) unary() (Expr, error) {
	if l.isOp("!") || l.isOp("-") || l.isOp("*") {
		op := l.next().val
		x, err := l.unary()
		if err != nil {
			return nil, err
		}
		return &Unary{op, x}, nil
	}
	return l.postfix()
}

func (l *lexer) postfix() (Expr, error) {
	x, err := l.atom()
	if err != nil {
		return nil, err
	}
	for {
		switch {
		case l.isOp("("):
			l.next()
			var args []Expr
			for !l.isOp(")") {
				a, err := l.expr(0)
				if err != nil {
					return nil, err
				}
				args = append(args, a)
				if l.isOp(",") {
					l.next()
				} else {
					break
				}
			}
			if err := l.expectOp(")"); err != nil {
				return nil, err
			}
			if id, ok := x.(*Ident); ok && id.Name == "old" && len(args) == 1 {
				x = &Old{args[0]}
			} else {
				x = &Call{x, args}
			}
		case l.isOp("["):
			l.next()
			var lo, hi Expr
			if !l.isOp(":") {
				lo, err = l.expr(0)
				if err != nil {
					return nil, err
				}
			}
			if l.isOp(":") {
				l.next()
				if !l.isOp("]") {
					hi, err = l.expr(0)
					if err != nil {
						return nil, err
					}
				}
				if err := l.expectOp("]"); err != nil {
					return nil, err
				}
				x = &SliceE{x, lo, hi}
			} else {
				if err := l.expectOp("]"); err != nil {
					return nil, err
				}
				x = &Index{x, lo}
			}
		case l.isOp("."):
			l.next()
			if l.isOp("(") {
				l.next()
				ty, err := l.typeText(map[string]bool{")": true})
				if err != nil {
					return nil, err
				}
				if err := l.expectOp(")"); err != nil {
					return nil, err
				}
				x = &Cast{x, ty}
			} else {
				t := l.next()
				if t.kind != "id" {
					return nil, fmt.Errorf("expected field name at %d in %q", t.pos, l.src)
				}
				x = &Select{x, t.val}
			}
		default:
			return x, nil
		}
	}
}

func (l *lexer) atom() (Expr, error) {
	t := l.next()
	switch t.kind {
	case "id":
		switch t.val {
		case "true":
			return &BoolLit{true}, nil
		case "false":
			return &BoolLit{false}, nil
		case "nil":
			return &NilLit{}, nil
		}
		return &Ident{t.val}, nil
	case "int":
		return &IntLit{strings.ReplaceAll(t.val, "_", "")}, nil
	case "str":
		return &StrLit{t.val}, nil
	case "op":
		if t.val == "(" {
			e, err := l.expr(0)
			if err != nil {
				return nil, err
			}
			if err := l.expectOp(")"); err != nil {
				return nil, err
			}
			return e, nil
		}
	}
	return nil, fmt.Errorf("unexpected token %q at %d in %q", t.val, t.pos, l.src)
}

// typeText collects the raw text of a Go type up to (not including) a stop
// token at bracket depth 0.
func (l *lexer) typeText(stop map[string]bool) (string, error) {
	depth := 0
	start := l.peek().pos
	end := start
	for {
		t := l.peek()
		if t.kind == "eof" {
			break
		}
		if t.kind == "op" {
			if depth == 0 && stop[t.val] {
				break
			}
			if t.val == "(" || t.val == "[" || t.val == "{" {
				depth++
			}
			if t.val == ")" || t.val == "]" || t.val == "}" {
				if depth == 0 {
					break
				}
				depth--
			}
		}
		l.next()
		end = l.peek().pos
	}
	s := strings.TrimSpace(l.src[start:end])
	if s == "" {
		return "", fmt.Errorf("expected type at %d in %q", start, l.src)
	}
	return s, nil
}

// params parses "a T, b, c U" up to the stop operator (not consumed).
func (l *lexer) params(stop string) ([]Param, error) {
	var out []Param
	var pendingNames []string
	for !l.isOp(stop) && l.peek().kind != "eof" {
		t := l.next()
		if t.kind != "id" {
			return nil, fmt.Errorf("expected parameter name, got %q at %d in %q", t.val, t.pos, l.src)
		}
		pendingNames = append(pendingNames, t.val)
		if l.isOp(",") {
			l.next()
			continue
		}
		ty, err := l.typeText(map[string]bool{",": true, stop: true})
		if err != nil {
			return nil, err
		}
		for _, n := range pendingNames {
			out = append(out, Param{n, ty})
		}
		pendingNames = nil
		if l.isOp(",") {
			l.next()
		}
	}
	if len(pendingNames) > 0 {
		return nil, fmt.Errorf("parameter(s) %v without type in %q", pendingNames, l.src)
	}
	return out, nil
}

// ---------------------------------------------------------------- declarations

type Clause struct {
	Tags  []string // property ids
	Label string
	Uses  []string // lemmas for this clause only ("label by l1, l2: ...")
	Quiet bool     // label written quiet-<label>: proved as usual, but assumed at a call site only for the caller's clauses that name it
	E     Expr
	Src   string
}

type LoopSpec struct {
	Invariants []Clause
	Decreases  []Expr
}

type AssignsSpec struct {
	Tags    []string
	Nothing bool
	Locs    []Expr // roots whose reachable cells may be written: x (pointer/slice/map param), x.f
	Any     bool   // assigns anything (havoc everything)
}

type FuncContract struct {
	Key      string // as written: "(*Token).verifyProofs" / "Parse" / full ssa name for externs
	Extern   bool
	Params   []Param // names only matter (externs); may be empty for in-repo functions
	Results  []Param
	Requires []Clause
	Ensures  []Clause
	Assumes  []Clause // post-conditions assumed at call sites but NOT checked against the body (reported as trusted)
	// Defines: (interface-method contracts) post-conditions that define the evolution of ghost history state of the
	// interface value per call; assumed at call sites; for in-repo implementations they are the definition of that
	// ghost state (history variables), while the plain `ensures` of the interface contract must be proved (refinement).
	Defines []Clause
	// Repeats: "param.Method" — the (extern) callee calls param.Method any number of times with buffers of its own.
	Repeats []string
	// Stream: two-state invariants (over old()) of an in-repo method that are preserved by every call of the method
	// (and hold reflexively); used to summarise an unknown number of calls made by a `repeats` callee.
	Stream []Clause
	// Given: definitional axioms of ghost functions used by this contract (e.g. a trace function defined by recursion over a
	// slice in the heap): assumed at function entry and at call sites (pre-state); reported as definitional assumptions.
	Given []Clause
	// CbGiven: assumed just before a callback named in `invokes` runs (over cbarg0, cbarg1, ...: the arguments it is called with)
	CbGiven []Clause
	// RetGiven: definitional unfoldings of ghost predicates, assumed in the state of each return point of the function itself
	// (where the values a decoder / constructor has just built exist) and, like `assumes`, at its call sites
	RetGiven []Clause
	// Implements: key of the interface-method contract this in-repo method refines, e.g. "(io.Reader).Read".
	Implements string
	Assigns  *AssignsSpec
	Loops    map[int]*LoopSpec
	Decr     []Expr
	Uses     []string // lemma names
	Invokes  []string // function-valued parameters the callee calls (with arbitrary arguments)
	Inline   bool     // never use the contract at call sites; always inline
	NoInline bool
	File     string
	Trusted  bool // in-repo function whose contract is assumed, body not verified
	MayPanic bool
	DecrAssumed bool
	ExactConv bool
	FuncType bool // contract on every value of a named function type (calls through such values)
	Pure     bool
}

type PureFunc struct {
	Name    string
	Params  []Param
	Result  string
	Body    Expr // nil for ghost (uninterpreted) functions
	Decr    []Expr
	Opaque  bool
	Init    Expr // ghost state only: its value for a freshly allocated, zero-valued object (nil: unconstrained)
	State   bool // ghost state: a mutable abstract field of an object (one parameter), kept in a heap region
	File    string
	Pkg     string
}

type Lemma struct {
	Name      string
	Params    []Param
	Body      Expr
	Induction Expr // may be nil
	Uses      []string
	Tags      []string
	File      string
	Pkg       string
	Axiom     bool // assumed, listed as trusted
	Triggers  [][]Expr
}

type SortDecl struct{ Name string }

type File struct {
	Path    string
	Pkg     string            // package path the file belongs to ("" for stub files until a `package` line)
	Imports map[string]string // alias -> path
	Funcs   []*FuncContract
	Pures   []*PureFunc
	Lemmas  []*Lemma
	Sorts   []SortDecl
}

// ParseFile parses the text of a contract or stub file.  For contract files
// (Go files) only lines starting with //@ are considered; for .spec files all
// lines are.
func ParseFile(path, text string, goFile bool) (*File, error) {
	f := &File{Path: path, Imports: map[string]string{}}
	var lines []string
	for _, ln := range strings.Split(text, "\n") {
		if goFile {
			t := strings.TrimSpace(ln)
			if strings.HasPrefix(t, "//@") {
				l := strings.TrimPrefix(t, "//@")
				if strings.HasPrefix(strings.TrimSpace(l), "//") {
					continue // comment inside the contract block
				}
				if i := strings.Index(l, " // "); i >= 0 && !strings.Contains(l[:i], "\"") {
					l = l[:i]
				}
				lines = append(lines, l)
			}
			continue
		}
		if i := strings.Index(ln, "//"); i >= 0 && !strings.Contains(ln[:i], "\"") {
			ln = ln[:i]
		}
		lines = append(lines, ln)
	}
	// group lines into logical clauses: a clause starts with a keyword at the
	// beginning of the (trimmed) line; other lines continue the previous one.
	kw := []string{"package", "import", "sort", "pure", "ghost", "lemma", "axiom", "func", "extern", "requires", "ensures", "assigns", "loop", "invariant", "decreases", "use", "inline", "noinline", "trusted", "opaque", "trigger", "invokes", "assumes", "defines", "repeats", "stream", "implements", "given", "cbgiven", "retgiven", "maypanic", "exactconv"}
	var clauses []string
	for _, ln := range lines {
		t := strings.TrimSpace(ln)
		if t == "" {
			continue
		}
		first := t
		if i := strings.IndexAny(t, " \t(:"); i >= 0 {
			first = t[:i]
		}
		isKw := false
		for _, k := range kw {
			if first == k {
				isKw = true
			}
		}
		if isKw || len(clauses) == 0 {
			clauses = append(clauses, t)
		} else {
			clauses[len(clauses)-1] += " " + t
		}
	}
	var curF *FuncContract
	var curLoop *LoopSpec
	var curPure *PureFunc
	var curLemma *Lemma
	for _, c := range clauses {
		word, rest := c, ""
		if i := strings.IndexAny(c, " \t"); i >= 0 {
			word, rest = c[:i], strings.TrimSpace(c[i+1:])
		}
		fail := func(err error) error { return fmt.Errorf("%s: in %q: %v", path, c, err) }
		switch word {
		case "package":
			f.Pkg = rest
		case "import":
			parts := strings.Fields(rest)
			if len(parts) != 2 {
				return nil, fail(fmt.Errorf("import alias \"path\""))
			}
			p, _ := strconv.Unquote(parts[1])
			f.Imports[parts[0]] = p
		case "sort":
			f.Sorts = append(f.Sorts, SortDecl{rest})
		case "pure", "ghost", "opaque":
			// pure func name(params) T = expr      |  ghost func name(params) T
			isState := false
			r := strings.TrimSpace(rest)
			if word == "ghost" && strings.HasPrefix(r, "state") {
				isState = true
				r = strings.TrimSpace(strings.TrimPrefix(r, "state"))
			}
			r = strings.TrimSpace(strings.TrimPrefix(r, "func"))
			pf, err := parsePure(r, word != "ghost" || isState)
			if pf != nil {
				pf.State = isState
				if isState && pf.Body != nil {
					// `ghost state g(x *T) R = e`: e is the value of g for a freshly allocated (zero-valued) T
					pf.Init, pf.Body = pf.Body, nil
				}
			}
			if err != nil {
				return nil, fail(err)
			}
			pf.Opaque = word == "opaque"
			pf.File = path
			pf.Pkg = f.Pkg
			f.Pures = append(f.Pures, pf)
			curPure, curF, curLoop, curLemma = pf, nil, nil, nil
		case "lemma", "axiom":
			lm, err := parseLemma(rest)
			if err != nil {
				return nil, fail(err)
			}
			lm.Axiom = word == "axiom"
			lm.File = path
			lm.Pkg = f.Pkg
			f.Lemmas = append(f.Lemmas, lm)
			curLemma, curF, curLoop, curPure = lm, nil, nil, nil
		case "func", "extern":
			r := rest
			ext := word == "extern"
			isFT := false
			if ext {
				if strings.HasPrefix(r, "functype") {
					isFT = true
					r = strings.TrimSpace(strings.TrimPrefix(r, "functype"))
				} else {
					r = strings.TrimSpace(strings.TrimPrefix(r, "func"))
				}
			}
			fc, err := parseFuncHeader(r)
			if err != nil {
				return nil, fail(err)
			}
			fc.FuncType = isFT
			fc.Extern = ext
			fc.File = path
			fc.Loops = map[int]*LoopSpec{}
			f.Funcs = append(f.Funcs, fc)
			curF, curLoop, curPure, curLemma = fc, nil, nil, nil
		case "repeats":
			if curF == nil {
				return nil, fail(fmt.Errorf("repeats outside func"))
			}
			curF.Repeats = append(curF.Repeats, strings.FieldsFunc(rest, func(r rune) bool { return r == ',' || r == ' ' })...)
		case "implements":
			if curF == nil {
				return nil, fail(fmt.Errorf("implements outside func"))
			}
			curF.Implements = strings.TrimSpace(rest)
		case "requires", "ensures", "invariant", "assumes", "defines", "stream", "given", "cbgiven", "retgiven":
			cl, err := parseClause(rest)
			if err != nil {
				return nil, fail(err)
			}
			switch {
			case word == "invariant":
				if curLoop == nil {
					return nil, fail(fmt.Errorf("invariant outside loop"))
				}
				curLoop.Invariants = append(curLoop.Invariants, cl)
			case curF == nil:
				return nil, fail(fmt.Errorf("clause outside func"))
			case word == "requires":
				curF.Requires = append(curF.Requires, cl)
			case word == "assumes":
				curF.Assumes = append(curF.Assumes, cl)
			case word == "defines":
				curF.Defines = append(curF.Defines, cl)
			case word == "stream":
				curF.Stream = append(curF.Stream, cl)
			case word == "given":
				curF.Given = append(curF.Given, cl)
			case word == "cbgiven":
				curF.CbGiven = append(curF.CbGiven, cl)
			case word == "retgiven":
				curF.RetGiven = append(curF.RetGiven, cl)
				curF.Assumes = append(curF.Assumes, cl)
			default:
				curF.Ensures = append(curF.Ensures, cl)
			}
		case "assigns":
			if curF == nil {
				return nil, fail(fmt.Errorf("assigns outside func"))
			}
			tags, r2 := parseTags(rest)
			as := &AssignsSpec{Tags: tags}
			switch strings.TrimSpace(r2) {
			case "nothing":
				as.Nothing = true
			case "anything":
				as.Any = true
			default:
				for _, part := range splitTop(r2, ',') {
					e, err := ParseExpr(part)
					if err != nil {
						return nil, fail(err)
					}
					as.Locs = append(as.Locs, e)
				}
			}
			curF.Assigns = as
		case "loop":
			if curF == nil {
				return nil, fail(fmt.Errorf("loop outside func"))
			}
			// loop N: [invariant e | decreases e]
			i := strings.Index(rest, ":")
			if i < 0 {
				return nil, fail(fmt.Errorf("loop N: ..."))
			}
			n, err := strconv.Atoi(strings.TrimSpace(rest[:i]))
			if err != nil {
				return nil, fail(err)
			}
			ls := curF.Loops[n]
			if ls == nil {
				ls = &LoopSpec{}
				curF.Loops[n] = ls
			}
			curLoop = ls
			tail := strings.TrimSpace(rest[i+1:])
			if strings.HasPrefix(tail, "invariant") {
				cl, err := parseClause(strings.TrimSpace(strings.TrimPrefix(tail, "invariant")))
				if err != nil {
					return nil, fail(err)
				}
				ls.Invariants = append(ls.Invariants, cl)
			} else if strings.HasPrefix(tail, "decreases") {
				es, err := parseExprList(strings.TrimSpace(strings.TrimPrefix(tail, "decreases")))
				if err != nil {
					return nil, fail(err)
				}
				ls.Decreases = es
			} else if tail != "" {
				return nil, fail(fmt.Errorf("unexpected loop clause"))
			}
		case "decreases":
			if strings.TrimSpace(rest) == "_" && curF != nil && curLoop == nil {
				// termination assumed, not proved (reported among the assumptions)
				curF.DecrAssumed = true
				break
			}
			es, err := parseExprList(rest)
			if err != nil {
				return nil, fail(err)
			}
			switch {
			case curLoop != nil:
				curLoop.Decreases = es
			case curF != nil:
				curF.Decr = es
			case curPure != nil:
				curPure.Decr = es
			default:
				return nil, fail(fmt.Errorf("decreases outside context"))
			}
		case "trigger":
			es, err := parseExprList(rest)
			if err != nil {
				return nil, fail(err)
			}
			if curLemma == nil {
				return nil, fail(fmt.Errorf("trigger outside lemma"))
			}
			curLemma.Triggers = append(curLemma.Triggers, es)
		case "use":
			names := strings.FieldsFunc(rest, func(r rune) bool { return r == ',' || r == ' ' })
			switch {
			case curF != nil:
				curF.Uses = append(curF.Uses, names...)
			case curLemma != nil:
				curLemma.Uses = append(curLemma.Uses, names...)
			default:
				return nil, fail(fmt.Errorf("use outside context"))
			}
		case "invokes":
			if curF == nil {
				return nil, fail(fmt.Errorf("invokes outside func"))
			}
			curF.Invokes = append(curF.Invokes, strings.FieldsFunc(rest, func(r rune) bool { return r == ',' || r == ' ' })...)
		case "inline":
			if curF != nil {
				curF.Inline = true
			}
		case "noinline":
			if curF != nil {
				curF.NoInline = true
			}
		case "maypanic":
			// panicking is part of this function's interface (its callers recover): no "unreachable" obligations for its panic sites
			if curF != nil {
				curF.MayPanic = true
			}
		case "exactconv":
			// every integer conversion in this function must preserve the mathematical value
			if curF != nil {
				curF.ExactConv = true
			}
		case "trusted":
			if curF != nil {
				curF.Trusted = true
			}
		default:
			return nil, fail(fmt.Errorf("unknown clause keyword %q", word))
		}
	}
	return f, nil
}

func splitTop(s string, sep byte) []string {
	var out []string
	depth := 0
	last := 0
	inStr := false
	for i := 0; i < len(s); i++ {
		c := s[i]
		if c == '"' && (i == 0 || s[i-1] != '\\') {
			inStr = !inStr
		}
		if inStr {
			continue
		}
		switch c {
		case '(', '[', '{':
			depth++
		case ')', ']', '}':
			depth--
		}
		if c == sep && depth == 0 {
			out = append(out, strings.TrimSpace(s[last:i]))
			last = i + 1
		}
	}
	if strings.TrimSpace(s[last:]) != "" {
		out = append(out, strings.TrimSpace(s[last:]))
	}
	return out
}

func parseExprList(s string) ([]Expr, error) {
	var out []Expr
	for _, p := range splitTop(s, ',') {
		e, err := ParseExpr(p)
		if err != nil {
			return nil, err
		}
		out = append(out, e)
	}
	return out, nil
}

func parseTags(s string) ([]string, string) {
	s = strings.TrimSpace(s)
	if strings.HasPrefix(s, "[C") {
		if i := strings.Index(s, "]"); i > 0 {
			var tags []string
			for _, t := range strings.Split(s[1:i], ",") {
				tags = append(tags, strings.TrimSpace(t))
			}
			return tags, strings.TrimSpace(s[i+1:])
		}
	}
	return nil, s
}

// parseClause: [C01,C02] label: expr      (tags and label optional)
func parseClause(s string) (Clause, error) {
	tags, rest := parseTags(s)
	label := ""
	var uses []string
	// label: identifier followed by ':' (but not '::')
	if i := strings.Index(rest, ":"); i > 0 && !strings.HasPrefix(rest[i:], "::") {
		cand := strings.TrimSpace(rest[:i])
		// "label by lemma1, lemma2": lemmas made available to this clause's obligations only
		if j := strings.Index(cand, " by "); j > 0 {
			for _, u := range strings.Split(cand[j+4:], ",") {
				if u = strings.TrimSpace(u); u != "" {
					uses = append(uses, u)
				}
			}
			cand = strings.TrimSpace(cand[:j])
		}
		ok := cand != ""
		for _, r := range cand {
			if !(unicode.IsLetter(r) || unicode.IsDigit(r) || r == '_' || r == '-') {
				ok = false
			}
		}
		if ok {
			label = cand
			rest = strings.TrimSpace(rest[i+1:])
		}
	}
	e, err := ParseExpr(rest)
	if err != nil {
		return Clause{}, err
	}
	if label == "" {
		uses = nil
	}
	quiet := false
	if strings.HasPrefix(label, "quiet-") {
		// a post-condition that call sites do not assume wholesale: a caller's clause asks for it by name ("by f.label")
		quiet, label = true, strings.TrimPrefix(label, "quiet-")
	}
	return Clause{Tags: tags, Label: label, E: e, Src: rest, Uses: uses, Quiet: quiet}, nil
}

// parsePure: name(params) T = expr    or   name(params) T
func parsePure(s string, hasBody bool) (*PureFunc, error) {
	i := strings.Index(s, "(")
	if i < 0 {
		return nil, fmt.Errorf("expected '(' in pure func")
	}
	name := strings.TrimSpace(s[:i])
	// find matching paren
	depth := 0
	j := i
	for ; j < len(s); j++ {
		if s[j] == '(' {
			depth++
		}
		if s[j] == ')' {
			depth--
			if depth == 0 {
				break
			}
		}
	}
	toks, err := lex(s[i+1 : j])
	if err != nil {
		return nil, err
	}
	l := &lexer{src: s[i+1 : j], toks: toks}
	ps, err := l.params(")")
	if err != nil {
		return nil, err
	}
	rest := strings.TrimSpace(s[j+1:])
	pf := &PureFunc{Name: name, Params: ps}
	if k := strings.Index(rest, "="); k >= 0 && hasBody {
		pf.Result = strings.TrimSpace(rest[:k])
		body := strings.TrimSpace(rest[k+1:])
		e, err := ParseExpr(body)
		if err != nil {
			return nil, err
		}
		pf.Body = e
	} else {
		pf.Result = rest
	}
	if pf.Result == "" {
		return nil, fmt.Errorf("pure func %s: missing result type", name)
	}
	return pf, nil
}

// parseLemma: name(params): expr [by induction on e]
func parseLemma(s string) (*Lemma, error) {
	tags, s := parseTags(s)
	i := strings.Index(s, "(")
	if i < 0 {
		return nil, fmt.Errorf("expected '(' in lemma")
	}
	name := strings.TrimSpace(s[:i])
	depth := 0
	j := i
	for ; j < len(s); j++ {
		if s[j] == '(' {
			depth++
		}
		if s[j] == ')' {
			depth--
			if depth == 0 {
				break
			}
		}
	}
	toks, err := lex(s[i+1 : j])
	if err != nil {
		return nil, err
	}
	l := &lexer{src: s[i+1 : j], toks: toks}
	ps, err := l.params(")")
	if err != nil {
		return nil, err
	}
	rest := strings.TrimSpace(s[j+1:])
	rest = strings.TrimSpace(strings.TrimPrefix(rest, ":"))
	lm := &Lemma{Name: name, Params: ps, Tags: tags}
	if k := strings.Index(rest, " by induction on "); k >= 0 {
		ie, err := ParseExpr(strings.TrimSpace(rest[k+len(" by induction on "):]))
		if err != nil {
			return nil, err
		}
		lm.Induction = ie
		rest = rest[:k]
	}
	e, err := ParseExpr(rest)
	if err != nil {
		return nil, err
	}
	lm.Body = e
	return lm, nil
}

// parseFuncHeader: "(*Token).verifyProofs" | "Parse" | "strings.HasPrefix(s string, p string) (r bool)"
func parseFuncHeader(s string) (*FuncContract, error) {
	s = strings.TrimSpace(s)
	fc := &FuncContract{}
	// the key is everything up to the parameter list; a key may itself start with '(' (receiver)
	i := 0
	if strings.HasPrefix(s, "(") {
		depth := 0
		for ; i < len(s); i++ {
			if s[i] == '(' {
				depth++
			}
			if s[i] == ')' {
				depth--
				if depth == 0 {
					i++
					break
				}
			}
		}
	}
	// generic instantiation brackets may be part of the key
	j := i
	depthB := 0
	for ; j < len(s); j++ {
		if s[j] == '[' {
			depthB++
		}
		if s[j] == ']' {
			depthB--
		}
		if s[j] == '(' && depthB == 0 {
			break
		}
	}
	fc.Key = strings.TrimSpace(s[:j])
	if j >= len(s) {
		return fc, nil
	}
	// params
	depth := 0
	k := j
	for ; k < len(s); k++ {
		if s[k] == '(' {
			depth++
		}
		if s[k] == ')' {
			depth--
			if depth == 0 {
				break
			}
		}
	}
	toks, err := lex(s[j+1 : k])
	if err != nil {
		return nil, err
	}
	l := &lexer{src: s[j+1 : k], toks: toks}
	ps, err := l.params(")")
	if err != nil {
		return nil, err
	}
	fc.Params = ps
	rest := strings.TrimSpace(s[k+1:])
	if strings.HasPrefix(rest, "(") {
		end := strings.LastIndex(rest, ")")
		toks, err := lex(rest[1:end])
		if err != nil {
			return nil, err
		}
		l := &lexer{src: rest[1:end], toks: toks}
		rs, err := l.params(")")
		if err != nil {
			return nil, err
		}
		fc.Results = rs
	} else if rest != "" {
		fc.Results = []Param{{"result", rest}}
	}
	return fc, nil
}
