// Package smt holds the fixed SMT-LIB prelude and the solver portfolio.
package smt

import (
	"bytes"
	"context"
	"fmt"
	"os"
	"os/exec"
	"path/filepath"
	"strings"
	"sync"
	"time"
)

// Prelude is emitted in front of every query.  It contains only sorts and
// axioms that are independent of the program under verification.
const Prelude = `(set-option :produce-models true)
(set-logic ALL)
; ---- strings / byte sequences -------------------------------------------------
(declare-sort Str 0)
(declare-fun len (Str) Int)
(declare-fun at (Str Int) Int)
(assert (forall ((s Str)) (! (>= (len s) 0) :pattern ((len s)))))
(assert (forall ((s Str) (i Int)) (! (and (<= 0 (at s i)) (<= (at s i) 255)) :pattern ((at s i)))))
(declare-fun streq (Str Str) Bool)
(declare-fun strdiff (Str Str) Int)
(assert (forall ((s Str) (t Str)) (! (= (streq s t) (= s t)) :pattern ((streq s t)))))
(assert (forall ((s Str) (t Str)) (! (or (streq s t) (not (= (len s) (len t))) (and (<= 0 (strdiff s t)) (< (strdiff s t) (len s)) (not (= (at s (strdiff s t)) (at t (strdiff s t)))))) :pattern ((streq s t)))))
(declare-fun strcat (Str Str) Str)
(assert (forall ((a Str) (b Str)) (! (= (len (strcat a b)) (+ (len a) (len b))) :pattern ((strcat a b)))))
(assert (forall ((a Str) (b Str) (i Int)) (! (= (at (strcat a b) i) (ite (< i (len a)) (at a i) (at b (- i (len a))))) :pattern ((at (strcat a b) i)))))
(declare-fun strsub (Str Int Int) Str)
(assert (forall ((s Str) (lo Int) (hi Int)) (! (=> (and (<= 0 lo) (<= lo hi) (<= hi (len s))) (= (len (strsub s lo hi)) (- hi lo))) :pattern ((strsub s lo hi)))))
(assert (forall ((s Str) (lo Int) (hi Int) (i Int)) (! (=> (and (<= 0 lo) (<= lo hi) (<= hi (len s)) (<= 0 i) (< i (- hi lo))) (= (at (strsub s lo hi) i) (at s (+ lo i)))) :pattern ((at (strsub s lo hi) i)))))
; strafter(s, p): what follows the prefix p in s
(declare-fun strafter (Str Str) Str)
(declare-const emptyStr Str)
(assert (= (len emptyStr) 0))
(assert (forall ((s Str)) (! (=> (= (len s) 0) (= s emptyStr)) :pattern ((len s)))))
(declare-fun strlt (Str Str) Bool)
; hasPrefix(s, p): p is a prefix of s (kept as a predicate so that contracts stay quantifier-free)
(declare-fun hasPrefix (Str Str) Bool)
(declare-fun pfxdiff (Str Str) Int)
(assert (forall ((s Str) (p Str)) (! (=> (hasPrefix s p) (<= (len p) (len s))) :pattern ((hasPrefix s p)))))
(assert (forall ((s Str) (p Str) (i Int)) (! (=> (and (hasPrefix s p) (<= 0 i) (< i (len p))) (= (at s i) (at p i))) :pattern ((hasPrefix s p) (at s i)) :pattern ((hasPrefix s p) (at p i)))))
(assert (forall ((s Str) (p Str)) (! (or (hasPrefix s p) (> (len p) (len s)) (and (<= 0 (pfxdiff s p)) (< (pfxdiff s p) (len p)) (not (= (at s (pfxdiff s p)) (at p (pfxdiff s p)))))) :pattern ((hasPrefix s p)))))
(assert (forall ((s Str) (p Str)) (! (=> (hasPrefix s p) (= (len (strafter s p)) (- (len s) (len p)))) :pattern ((strafter s p)))))
(assert (forall ((s Str) (p Str) (i Int)) (! (=> (and (hasPrefix s p) (<= 0 i) (< i (- (len s) (len p)))) (= (at (strafter s p) i) (at s (+ (len p) i)))) :pattern ((at (strafter s p) i)))))
; derived facts about concatenation (theorems of finite byte sequences, stated so that no induction is needed)
(assert (forall ((a Str) (b Str)) (! (hasPrefix (strcat a b) a) :pattern ((strcat a b)))))
(assert (forall ((a Str) (b Str)) (! (= (strafter (strcat a b) a) b) :pattern ((strafter (strcat a b) a)))))
(assert (forall ((s Str) (p Str) (b Str)) (! (=> (hasPrefix s p) (and (hasPrefix (strcat s b) p) (= (strafter (strcat s b) p) (strcat (strafter s p) b)))) :pattern ((strafter (strcat s b) p)) :pattern ((hasPrefix s p) (strcat s b)))))
(assert (forall ((a Str) (b Str) (c Str)) (! (= (strcat (strcat a b) c) (strcat a (strcat b c))) :pattern ((strcat (strcat a b) c)))))
(assert (forall ((a Str)) (! (and (= (strcat emptyStr a) a) (= (strcat a emptyStr) a)) :pattern ((strcat emptyStr a)) :pattern ((strcat a emptyStr)))))
(assert (forall ((s Str)) (! (and (hasPrefix s s) (= (strafter s s) emptyStr)) :pattern ((strafter s s)))))
(assert (forall ((a Str) (b Str)) (! (= (strsub (strcat a b) (len a) (+ (len a) (len b))) b) :pattern ((strcat a b)))))
(assert (forall ((s Str)) (! (= (strsub s 0 (len s)) s) :pattern ((strsub s 0 (len s))))))
(assert (forall ((s Str) (a Int) (b Int) (c Int)) (! (=> (and (<= 0 a) (<= a b) (<= b c) (<= c (len s))) (= (strcat (strsub s a b) (strsub s b c)) (strsub s a c))) :pattern ((strcat (strsub s a b) (strsub s b c))))))
; ---- slices ---------------------------------------------------------------------
(declare-datatypes ((Slice 0)) (((mkslice (sbase Int) (soff Int) (slen Int) (scap Int)))))
(define-fun nilSlice () Slice (mkslice 0 0 0 0))
; idx(off, i) = off + i, kept as a function symbol so that quantifier patterns over slice elements match structurally
(declare-fun idx (Int Int) Int)
(assert (forall ((a Int) (b Int)) (! (= (idx a b) (+ a b)) :pattern ((idx a b)))))
; bytesToStr(a, off, n): the byte sequence a[off .. off+n) as a Str (spec-level view of a []byte)
(declare-fun bytesToStr ((Array Int Int) Int Int) Str)
(assert (forall ((a (Array Int Int)) (o Int) (n Int)) (! (=> (>= n 0) (= (len (bytesToStr a o n)) n)) :pattern ((bytesToStr a o n)))))
(assert (forall ((a (Array Int Int)) (o Int) (n Int) (i Int)) (! (=> (and (<= 0 i) (< i n) (<= 0 (select a (idx o i))) (<= (select a (idx o i)) 255)) (= (at (bytesToStr a o n) i) (select a (idx o i)))) :pattern ((at (bytesToStr a o n) i)))))
(assert (forall ((a (Array Int Int)) (o Int) (n Int) (lo Int) (hi Int)) (! (=> (and (<= 0 lo) (<= lo hi) (<= hi n)) (= (strsub (bytesToStr a o n) lo hi) (bytesToStr a (+ o lo) (- hi lo)))) :pattern ((strsub (bytesToStr a o n) lo hi)))))
; ---- interfaces -----------------------------------------------------------------
(declare-sort Iface 0)
(declare-fun typeOf (Iface) Int)
(declare-const nilI Iface)
(assert (= (typeOf nilI) 0))
(assert (forall ((x Iface)) (! (=> (= (typeOf x) 0) (= x nilI)) :pattern ((typeOf x)))))
; ---- misc -----------------------------------------------------------------------
(declare-sort Float 0)
(declare-sort Fn 0)
(declare-const nilFn Fn)
(declare-const alloc0 (Array Int Bool))
(assert (not (select alloc0 0)))
`

// Result of one solver run.
type Result struct {
	Status  string // unsat | sat | unknown | timeout | error
	Solver  string
	Seconds float64
	Output  string // verbatim solver output (truncated)
	Others  map[string]string
}

type solverSpec struct {
	name string
	args func(file string, timeoutS int) []string
}

// Seed offsets the random seeds of the z3 instances (VERIF_SEED).
var Seed = 0

func z3seed(n int) solverSpec {
	return solverSpec{fmt.Sprintf("z3-new/seed%d", n), func(f string, t int) []string {
		return []string{"z3-new", fmt.Sprintf("-T:%d", t), fmt.Sprintf("smt.random_seed=%d", Seed+n), f}
	}}
}

var solvers = []solverSpec{
	{"z3-new", func(f string, t int) []string { return []string{"z3-new", fmt.Sprintf("-T:%d", t), f} }},
	{"cvc5", func(f string, t int) []string {
		return []string{"cvc5", "--enum-inst", fmt.Sprintf("--tlimit=%d", t*1000), f}
	}},
	z3seed(1), z3seed(2), z3seed(3),
	{"z3", func(f string, t int) []string { return []string{"z3", fmt.Sprintf("-T:%d", t), f} }},
}

func runOne(ctx context.Context, sp solverSpec, file string, timeoutS int) Result {
	argv := sp.args(file, timeoutS)
	start := time.Now()
	cctx, cancel := context.WithTimeout(ctx, time.Duration(timeoutS+2)*time.Second)
	defer cancel()
	cmd := exec.CommandContext(cctx, argv[0], argv[1:]...)
	var out bytes.Buffer
	cmd.Stdout = &out
	cmd.Stderr = &out
	_ = cmd.Run()
	el := time.Since(start).Seconds()
	o := out.String()
	first := strings.TrimSpace(strings.SplitN(o, "\n", 2)[0])
	st := "unknown"
	switch {
	case first == "unsat":
		st = "unsat"
	case first == "sat":
		st = "sat"
	case first == "timeout" || strings.Contains(first, "interrupted") || cctx.Err() != nil:
		st = "timeout"
	case first == "unknown":
		st = "unknown"
	case strings.HasPrefix(first, "(error"):
		st = "error"
	}
	if len(o) > 6000 {
		o = o[:6000] + "\n...[truncated]"
	}
	return Result{Status: st, Solver: sp.name, Seconds: el, Output: o}
}

// Quick runs z3 5.1 alone for t seconds (used for satisfiability canaries).
func Quick(query, dir, name string, t int) Result {
	file := filepath.Join(dir, name+".smt2")
	if err := os.WriteFile(file, []byte(query), 0o644); err != nil {
		return Result{Status: "error", Output: err.Error()}
	}
	return runOne(context.Background(), solvers[0], file, t)
}

// Solve runs the portfolio on a query.  Strategy: z3-new alone for `first`
// seconds; if undecided, all three race for timeoutS seconds.  When all==true
// every solver runs to completion and the answers are cross-checked.
func Solve(query string, dir string, name string, timeoutS int, all bool) Result {
	file := filepath.Join(dir, name+".smt2")
	if err := os.WriteFile(file, []byte(query), 0o644); err != nil {
		return Result{Status: "error", Output: err.Error()}
	}
	ctx := context.Background()
	if !all {
		r := runOne(ctx, solvers[0], file, 3)
		if r.Status == "unsat" || r.Status == "sat" {
			return r
		}
		if r.Status == "error" {
			return r
		}
	}
	cctx, cancel := context.WithCancel(ctx)
	defer cancel()
	ch := make(chan Result, len(solvers))
	var wg sync.WaitGroup
	use := solvers
	if !all {
		// quick tier: cvc5, z3 5.1 under three more seeds (slow queries are the seed-sensitive ones) and z3 4.8.12
		// (which decides some obligations in 2 s that z3 5.1 needs 20 s and a lucky seed for); the first definite answer
		// wins.  In the thorough tier every solver runs to the end and the answers are cross-checked.
		use = solvers[1:6]
	}
	for _, sp := range use {
		wg.Add(1)
		go func(sp solverSpec) {
			defer wg.Done()
			ch <- runOne(cctx, sp, file, timeoutS)
		}(sp)
	}
	go func() { wg.Wait(); close(ch) }()
	var best Result
	others := map[string]string{}
	got := false
	for r := range ch {
		others[r.Solver] = fmt.Sprintf("%s %.2fs", r.Status, r.Seconds)
		definite := r.Status == "unsat" || r.Status == "sat"
		if definite && !got {
			best = r
			got = true
			if !all {
				cancel()
			}
		} else if definite && got && all && r.Status != best.Status {
			best = Result{Status: "disagree", Solver: best.Solver + "/" + r.Solver, Output: "solvers disagree: " + best.Status + " vs " + r.Status}
		} else if !got && (best.Status == "" || best.Status == "error") {
			best = r
		}
	}
	best.Others = others
	if !got && best.Status == "" {
		best.Status = "unknown"
	}
	return best
}
