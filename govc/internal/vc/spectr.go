package vc

import (
	"fmt"
	"go/constant"
	"go/types"
	"strconv"
	"strings"

	"golang.org/x/tools/go/ssa"

	"govc/internal/spec"
)

// sval is a translated spec expression.
type sval struct {
	t    string
	sort string // SMT sort; "nil" for the untyped nil literal
	gt   types.Type
}

// env is the environment for translating a spec expression.
type env struct {
	c     *fctx
	vars  map[string]sval
	lazy  map[string]func() sval // names resolved on demand (e.g. address-taken locals)
	st    *state                 // current heap (nil: heap access forbidden)
	old   *state
	file  *spec.File
	pkg   *types.Package
	inRec string // name of the recursive pure function being defined (no heap)
	depth int
	preAlloc string // alloc region before the call (for fresh())
}

func (e *env) with(name string, v sval) *env {
	n := *e
	n.vars = make(map[string]sval, len(e.vars)+1)
	for k, x := range e.vars {
		n.vars[k] = x
	}
	n.vars[name] = v
	return &n
}

func (e *env) fail(format string, a ...interface{}) sval {
	e.c.errorf("spec: "+format, a...)
	return sval{t: "false", sort: "Bool"}
}

func isIntSort(s string) bool { return s == "Int" }

// tr translates a spec expression.
func (e *env) tr(x spec.Expr) sval {
	c := e.c
	switch x := x.(type) {
	case *spec.IntLit:
		v := x.Val
		if strings.HasPrefix(v, "0x") {
			n, _ := strconv.ParseUint(v[2:], 16, 64)
			v = strconv.FormatUint(n, 10)
		}
		return sval{t: v, sort: "Int", gt: types.Typ[types.Int]}
	case *spec.StrLit:
		return sval{t: c.S.StrLit(x.Val), sort: "Str", gt: types.Typ[types.String]}
	case *spec.BoolLit:
		if x.Val {
			return sval{t: "true", sort: "Bool", gt: types.Typ[types.Bool]}
		}
		return sval{t: "false", sort: "Bool", gt: types.Typ[types.Bool]}
	case *spec.NilLit:
		return sval{t: "nil", sort: "nil"}
	case *spec.Ident:
		return e.ident(x.Name)
	case *spec.Old:
		if e.old == nil {
			return e.fail("old() not available here: %s", x)
		}
		n := *e
		n.st = e.old
		return n.tr(x.X)
	case *spec.Let:
		v := e.tr(x.Val)
		return e.with(x.Name, v).tr(x.Body)
	case *spec.Unary:
		v := e.tr(x.X)
		switch x.Op {
		case "!":
			return sval{t: not(v.t), sort: "Bool", gt: types.Typ[types.Bool]}
		case "-":
			return sval{t: "(- " + v.t + ")", sort: "Int", gt: v.gt}
		case "*":
			return e.deref(v, x)
		}
	case *spec.Cond:
		cnd := e.tr(x.C)
		a, b := e.tr(x.A), e.tr(x.B)
		a, b = e.unifyNil(a, b)
		return sval{t: fmt.Sprintf("(ite %s %s %s)", cnd.t, a.t, b.t), sort: a.sort, gt: a.gt}
	case *spec.Binary:
		return e.binary(x)
	case *spec.Quant:
		n := *e
		n.vars = make(map[string]sval, len(e.vars)+len(x.Vars))
		for k, v := range e.vars {
			n.vars[k] = v
		}
		var bs []string
		for _, p := range x.Vars {
			gt, srt, err := c.P.ResolveType(p.Type, e.file, c.S)
			if err != nil {
				return e.fail("%v", err)
			}
			name := q("q." + p.Name)
			n.vars[p.Name] = sval{t: name, sort: srt, gt: gt}
			bs = append(bs, fmt.Sprintf("(%s %s)", name, srt))
		}
		body := n.tr(x.Body)
		kw := "exists"
		if x.Forall {
			kw = "forall"
		}
		bt := body.t
		if len(x.Triggers) > 0 {
			var pats []string
			for _, tr := range x.Triggers {
				var ts []string
				for _, te := range tr {
					ts = append(ts, n.tr(te).t)
				}
				pats = append(pats, ":pattern ("+strings.Join(ts, " ")+")")
			}
			bt = fmt.Sprintf("(! %s %s)", bt, strings.Join(pats, " "))
		}
		return sval{t: fmt.Sprintf("(%s (%s) %s)", kw, strings.Join(bs, " "), bt), sort: "Bool", gt: types.Typ[types.Bool]}
	case *spec.Index:
		base := e.tr(x.X)
		idx := e.tr(x.I)
		return e.index(base, idx, x)
	case *spec.SliceE:
		base := e.tr(x.X)
		var lo, hi sval
		if x.Lo != nil {
			lo = e.tr(x.Lo)
		} else {
			lo = sval{t: "0", sort: "Int"}
		}
		switch base.sort {
		case "Str":
			if x.Hi != nil {
				hi = e.tr(x.Hi)
			} else {
				hi = sval{t: "(len " + base.t + ")", sort: "Int"}
			}
			return sval{t: fmt.Sprintf("(strsub %s %s %s)", base.t, lo.t, hi.t), sort: "Str", gt: base.gt}
		case "Slice":
			if x.Hi != nil {
				hi = e.tr(x.Hi)
			} else {
				hi = sval{t: "(slen " + base.t + ")", sort: "Int"}
			}
			return sval{t: fmt.Sprintf("(mkslice (sbase %s) (+ (soff %s) %s) (- %s %s) (- (scap %s) %s))", base.t, base.t, lo.t, hi.t, lo.t, base.t, lo.t), sort: "Slice", gt: base.gt}
		}
		return e.fail("cannot slice %s (sort %s)", x.X, base.sort)
	case *spec.Select:
		return e.selectField(x)
	case *spec.Call:
		return e.call(x)
	case *spec.TypeIs:
		v := e.tr(x.X)
		gt, _, err := c.P.ResolveType(x.T, e.file, c.S)
		if err != nil {
			return e.fail("%v", err)
		}
		if _, isI := gt.Underlying().(*types.Interface); isI {
			c.ifaceSeen[gt.String()] = gt
			return sval{t: fmt.Sprintf("(%s (typeOf %s))", c.S.ImplPred(gt), v.t), sort: "Bool"}
		}
		b := c.S.Box(gt)
		return sval{t: fmt.Sprintf("(= (typeOf %s) %d)", v.t, b.Tag), sort: "Bool"}
	case *spec.Cast:
		v := e.tr(x.X)
		gt, _, err := c.P.ResolveType(x.T, e.file, c.S)
		if err != nil {
			return e.fail("%v", err)
		}
		if _, isI := gt.Underlying().(*types.Interface); isI {
			return sval{t: v.t, sort: "Iface", gt: gt}
		}
		b := c.S.Box(gt)
		return sval{t: fmt.Sprintf("(%s %s)", b.Unbox, v.t), sort: b.Sort, gt: gt}
	}
	return e.fail("unsupported expression %s", x)
}

func (e *env) unifyNil(a, b sval) (sval, sval) {
	if a.sort == "nil" && b.sort != "nil" {
		a = nilOf(b.sort, b.gt)
	}
	if b.sort == "nil" && a.sort != "nil" {
		b = nilOf(a.sort, a.gt)
	}
	return a, b
}

func nilOf(sort string, gt types.Type) sval {
	switch sort {
	case "Int":
		return sval{t: "0", sort: sort, gt: gt}
	case "Iface":
		return sval{t: "nilI", sort: sort, gt: gt}
	case "Slice":
		return sval{t: "nilSlice", sort: sort, gt: gt}
	case "Fn":
		return sval{t: "nilFn", sort: sort, gt: gt}
	}
	return sval{t: "0", sort: sort, gt: gt}
}

func (e *env) ident(name string) sval {
	c := e.c
	if v, ok := e.vars[name]; ok {
		return v
	}
	if f, ok := e.lazy[name]; ok {
		return f()
	}
	// package-level constants and variables
	if e.pkg != nil {
		if obj := e.pkg.Scope().Lookup(name); obj != nil {
			return e.pkgObject(obj)
		}
	}
	if pf, ok := c.P.Pures[name]; ok && len(pf.Params) == 0 {
		return e.applyPure(pf, nil)
	}
	return e.fail("unknown identifier %q", name)
}

func (e *env) pkgObject(obj types.Object) sval {
	c := e.c
	switch o := obj.(type) {
	case *types.Const:
		switch o.Val().Kind() {
		case constant.Int:
			s := o.Val().ExactString()
			if strings.HasPrefix(s, "-") {
				s = "(- " + s[1:] + ")"
			}
			return sval{t: s, sort: "Int", gt: o.Type()}
		case constant.String:
			return sval{t: c.S.StrLit(constant.StringVal(o.Val())), sort: "Str", gt: o.Type()}
		case constant.Bool:
			return sval{t: fmt.Sprint(constant.BoolVal(o.Val())), sort: "Bool", gt: o.Type()}
		}
	case *types.Func:
		if pk := c.P.SSA.Package(o.Pkg()); pk != nil {
			if f := pk.Func(o.Name()); f != nil {
				return sval{t: c.fnConst(f), sort: "Fn", gt: o.Type()}
			}
		}
	case *types.Var:
		if e.st == nil {
			return e.fail("global %s needs a heap state", o.Name())
		}
		pk := c.P.SSA.Package(o.Pkg())
		if pk != nil {
			if g, ok := pk.Members[o.Name()].(*ssa.Global); ok {
				srt := c.S.SortOf(o.Type())
				return sval{t: c.region(e.st, "G:"+g.String(), srt), sort: srt, gt: o.Type()}
			}
		}
	}
	return e.fail("unsupported package-level object %s", obj.Name())
}

func (e *env) deref(v sval, x spec.Expr) sval {
	c := e.c
	if e.st == nil {
		return e.fail("heap access not allowed here: %s", x)
	}
	pt, ok := types.Unalias(v.gt).Underlying().(*types.Pointer)
	if v.gt == nil || !ok {
		return e.fail("cannot dereference %s", x)
	}
	a := c.addrOfPointer(val{t: v.t}, v.gt)
	return sval{t: c.load(a, e.st), sort: c.S.SortOf(pt.Elem()), gt: pt.Elem()}
}

func (e *env) index(base, idx sval, x spec.Expr) sval {
	c := e.c
	switch {
	case base.sort == "Str":
		return sval{t: fmt.Sprintf("(at %s %s)", base.t, idx.t), sort: "Int", gt: types.Typ[types.Uint8]}
	case base.sort == "Slice":
		if e.st == nil {
			return e.fail("heap access not allowed here: %s", x)
		}
		var et types.Type
		if base.gt != nil {
			if sl, ok := types.Unalias(base.gt).Underlying().(*types.Slice); ok {
				et = sl.Elem()
			}
		}
		if et == nil {
			return e.fail("slice element type unknown: %s", x)
		}
		es := c.S.SortOf(et)
		h := c.region(e.st, c.elemKey(et), c.elemSort(es))
		return sval{t: fmt.Sprintf("(select (select %s (sbase %s)) (idx (soff %s) %s))", h, base.t, base.t, idx.t), sort: es, gt: et}
	case strings.HasPrefix(base.sort, "(Array Int "):
		var et types.Type
		if base.gt != nil {
			if ar, ok := types.Unalias(base.gt).Underlying().(*types.Array); ok {
				et = ar.Elem()
			}
		}
		es := strings.TrimSuffix(strings.TrimPrefix(base.sort, "(Array Int "), ")")
		return sval{t: fmt.Sprintf("(select %s %s)", base.t, idx.t), sort: es, gt: et}
	case base.gt != nil:
		if mt, ok := types.Unalias(base.gt).Underlying().(*types.Map); ok {
			if e.st == nil {
				return e.fail("heap access not allowed here: %s", x)
			}
			vs := c.S.SortOf(mt.Elem())
			mv := c.region(e.st, c.mapValKey(mt), c.mapValSort(mt))
			return sval{t: fmt.Sprintf("(select (select %s %s) %s)", mv, base.t, idx.t), sort: vs, gt: mt.Elem()}
		}
		if pt, ok := types.Unalias(base.gt).Underlying().(*types.Pointer); ok {
			if ar, ok := types.Unalias(pt.Elem()).Underlying().(*types.Array); ok {
				es := c.S.SortOf(ar.Elem())
				h := c.region(e.st, c.elemKey(ar.Elem()), c.elemSort(es))
				return sval{t: fmt.Sprintf("(select (select %s %s) %s)", h, base.t, idx.t), sort: es, gt: ar.Elem()}
			}
		}
	}
	return e.fail("cannot index %s (sort %s)", x, base.sort)
}

func (e *env) selectField(x *spec.Select) sval {
	c := e.c
	// qualified name pkg.Name ?
	if id, ok := x.X.(*spec.Ident); ok {
		if _, isVar := e.vars[id.Name]; !isVar {
			if _, isLazy := e.lazy[id.Name]; !isLazy {
				var local types.Object
				if e.pkg != nil {
					local = e.pkg.Scope().Lookup(id.Name)
				}
				if local == nil {
					if tp := c.P.lookupPkg(id.Name, e.file); tp != nil {
						if obj := tp.Scope().Lookup(x.Sel); obj != nil {
							return e.pkgObject(obj)
						}
						if pf, ok := c.P.Pures[x.Sel]; ok && len(pf.Params) == 0 {
							return e.applyPure(pf, nil)
						}
						return e.fail("unknown %s.%s", id.Name, x.Sel)
					}
				}
			}
		}
	}
	v := e.tr(x.X)
	if v.gt == nil {
		return e.fail("field %s of untyped expression %s", x.Sel, x.X)
	}
	t := types.Unalias(v.gt)
	if pt, ok := t.Underlying().(*types.Pointer); ok {
		if e.st == nil {
			return e.fail("heap access not allowed here: %s", x)
		}
		si := c.S.StructOf(pt.Elem())
		if si == nil {
			return e.fail("field %s of opaque type %s", x.Sel, pt.Elem())
		}
		for _, f := range si.Fields {
			if f.Name == x.Sel {
				h := c.region(e.st, "F:"+si.Name+"."+f.Name, "(Array Int "+f.Sort+")")
				return sval{t: fmt.Sprintf("(select %s %s)", h, v.t), sort: f.Sort, gt: f.T}
			}
		}
		return e.fail("no field %s in %s", x.Sel, pt.Elem())
	}
	if si := c.S.StructOf(t); si != nil {
		for _, f := range si.Fields {
			if f.Name == x.Sel {
				return sval{t: fmt.Sprintf("(%s %s)", f.Acc, v.t), sort: f.Sort, gt: f.T}
			}
		}
		return e.fail("no field %s in %s", x.Sel, t)
	}
	return e.fail("cannot select %s from %s (type %s)", x.Sel, x.X, t)
}

// eqTerm is Go's == on values of type t (content equality on strings).
func (c *fctx) eqTerm(a, b string, t types.Type, sort string) string {
	if sort == "Str" {
		return fmt.Sprintf("(streq %s %s)", a, b)
	}
	if t != nil {
		if si := c.S.StructOf(t); si != nil && si.Name == sort {
			var cs []string
			for _, f := range si.Fields {
				cs = append(cs, c.eqTerm(fmt.Sprintf("(%s %s)", f.Acc, a), fmt.Sprintf("(%s %s)", f.Acc, b), f.T, f.Sort))
			}
			return and(cs...)
		}
	}
	return fmt.Sprintf("(= %s %s)", a, b)
}

func (e *env) binary(x *spec.Binary) sval {
	c := e.c
	boolT := types.Typ[types.Bool]
	switch x.Op {
	case "&&", "||", "==>", "<==>":
		a, b := e.tr(x.X), e.tr(x.Y)
		switch x.Op {
		case "&&":
			return sval{t: and(a.t, b.t), sort: "Bool", gt: boolT}
		case "||":
			return sval{t: or(a.t, b.t), sort: "Bool", gt: boolT}
		case "==>":
			return sval{t: fmt.Sprintf("(=> %s %s)", a.t, b.t), sort: "Bool", gt: boolT}
		default:
			return sval{t: fmt.Sprintf("(= %s %s)", a.t, b.t), sort: "Bool", gt: boolT}
		}
	}
	a, b := e.tr(x.X), e.tr(x.Y)
	switch x.Op {
	case "==", "!=":
		a, b = e.unifyNil(a, b)
		var t string
		switch {
		case a.sort == "nil":
			t = "true"
		case a.sort == "Slice" && (b.t == "nilSlice" || a.t == "nilSlice"):
			other := a
			if a.t == "nilSlice" {
				other = b
			}
			t = fmt.Sprintf("(= (sbase %s) 0)", other.t)
		default:
			gt := a.gt
			if gt == nil {
				gt = b.gt
			}
			t = c.eqTerm(a.t, b.t, gt, a.sort)
		}
		if x.Op == "!=" {
			t = not(t)
		}
		return sval{t: t, sort: "Bool", gt: boolT}
	case "<", "<=", ">", ">=":
		if a.sort == "Str" {
			return e.fail("string ordering not supported in specs")
		}
		return sval{t: fmt.Sprintf("(%s %s %s)", x.Op, a.t, b.t), sort: "Bool", gt: boolT}
	case "+":
		if a.sort == "Str" {
			return sval{t: fmt.Sprintf("(strcat %s %s)", a.t, b.t), sort: "Str", gt: a.gt}
		}
		return sval{t: fmt.Sprintf("(+ %s %s)", a.t, b.t), sort: "Int", gt: a.gt}
	case "++":
		return sval{t: fmt.Sprintf("(strcat %s %s)", a.t, b.t), sort: "Str", gt: a.gt}
	case "-", "*":
		return sval{t: fmt.Sprintf("(%s %s %s)", x.Op, a.t, b.t), sort: "Int", gt: a.gt}
	case "/":
		return sval{t: fmt.Sprintf("(div %s %s)", a.t, b.t), sort: "Int", gt: a.gt}
	case "%":
		return sval{t: fmt.Sprintf("(mod %s %s)", a.t, b.t), sort: "Int", gt: a.gt}
	}
	return e.fail("unsupported operator %s", x.Op)
}

func (e *env) call(x *spec.Call) sval {
	c := e.c
	var name string
	switch f := x.Fun.(type) {
	case *spec.Ident:
		name = f.Name
	case *spec.Select:
		name = f.Sel // flat namespace for spec functions (pkg qualifier is documentation)
	default:
		return e.fail("unsupported call %s", x)
	}
	args := make([]sval, len(x.Args))
	argOK := func(n int) bool {
		if len(x.Args) != n {
			e.fail("%s expects %d argument(s): %s", name, n, x)
			return false
		}
		return true
	}
	switch name {
	case "len":
		if !argOK(1) {
			return sval{t: "0", sort: "Int"}
		}
		v := e.tr(x.Args[0])
		switch {
		case v.sort == "Str":
			return sval{t: "(len " + v.t + ")", sort: "Int", gt: types.Typ[types.Int]}
		case v.sort == "Slice":
			return sval{t: "(slen " + v.t + ")", sort: "Int", gt: types.Typ[types.Int]}
		case v.gt != nil:
			if mt, ok := types.Unalias(v.gt).Underlying().(*types.Map); ok {
				if e.st == nil {
					return e.fail("heap access not allowed here: %s", x)
				}
				return sval{t: fmt.Sprintf("(select %s %s)", c.region(e.st, c.mapLenKey(mt), "(Array Int Int)"), v.t), sort: "Int", gt: types.Typ[types.Int]}
			}
			if ar, ok := types.Unalias(v.gt).Underlying().(*types.Array); ok {
				return sval{t: fmt.Sprint(ar.Len()), sort: "Int", gt: types.Typ[types.Int]}
			}
		}
		return e.fail("len of %s", x.Args[0])
	case "hasPrefix":
		if !argOK(2) {
			return sval{t: "false", sort: "Bool"}
		}
		s, p := e.tr(x.Args[0]), e.tr(x.Args[1])
		return sval{t: fmt.Sprintf("(hasPrefix %s %s)", s.t, p.t), sort: "Bool", gt: types.Typ[types.Bool]}
	case "runeCount":
		c.S.declareOnce("(declare-fun runeCount (Str) Int)")
		c.S.declareOnce("(assert (forall ((s Str)) (! (and (<= 0 (runeCount s)) (<= (runeCount s) (len s))) :pattern ((runeCount s)))))")
		v := e.tr(x.Args[0])
		return sval{t: "(runeCount " + v.t + ")", sort: "Int", gt: types.Typ[types.Int]}
	case "runeSlice":
		c.S.declareOnce("(declare-fun runeSlice (Str Int Int) Str)")
		a, b, d := e.tr(x.Args[0]), e.tr(x.Args[1]), e.tr(x.Args[2])
		return sval{t: fmt.Sprintf("(runeSlice %s %s %s)", a.t, b.t, d.t), sort: "Str", gt: types.Typ[types.String]}
	case "substr":
		a, b, d := e.tr(x.Args[0]), e.tr(x.Args[1]), e.tr(x.Args[2])
		return sval{t: fmt.Sprintf("(strsub %s %s %s)", a.t, b.t, d.t), sort: "Str", gt: types.Typ[types.String]}
	case "after":
		// after(s, p): what follows the prefix p in s
		if !argOK(2) {
			return sval{t: "emptyStr", sort: "Str"}
		}
		s, p := e.tr(x.Args[0]), e.tr(x.Args[1])
		return sval{t: fmt.Sprintf("(strafter %s %s)", s.t, p.t), sort: "Str", gt: types.Typ[types.String]}
	case "fnres0", "fnres1", "fnres2":
		// fnresN(f, args...): the N-th result of calling the function value f (calls through unknown
		// function values are modelled as deterministic, effect-free applications)
		if len(x.Args) < 1 {
			return e.fail("%s needs a function argument", name)
		}
		f := e.tr(x.Args[0])
		sig, ok := types.Unalias(f.gt).Underlying().(*types.Signature)
		if f.gt == nil || !ok {
			return e.fail("%s: first argument is not a function value", name)
		}
		n := int(name[5] - '0')
		if n >= sig.Results().Len() {
			return e.fail("%s: function has %d results", name, sig.Results().Len())
		}
		var asorts, aterms []string
		for i, a := range x.Args[1:] {
			av := e.tr(a)
			if i < sig.Params().Len() {
				asorts = append(asorts, c.S.SortOf(sig.Params().At(i).Type()))
			}
			aterms = append(aterms, av.t)
		}
		rt := sig.Results().At(n).Type()
		fname := q(fmt.Sprintf("apply.%s.%d", shortType(sig), n))
		c.S.declareOnce(fmt.Sprintf("(declare-fun %s (Fn %s) %s)", fname, strings.Join(asorts, " "), c.S.SortOf(rt)))
		return sval{t: fmt.Sprintf("(%s %s %s)", fname, f.t, strings.Join(aterms, " ")), sort: c.S.SortOf(rt), gt: rt}
	case "cap":
		v := e.tr(x.Args[0])
		return sval{t: "(scap " + v.t + ")", sort: "Int", gt: types.Typ[types.Int]}
	case "fresh":
		// fresh(x): x (pointer / slice / map) was not allocated when the function was entered
		v := e.tr(x.Args[0])
		ref := v.t
		if v.sort == "Slice" {
			ref = "(sbase " + v.t + ")"
		}
		pre := "alloc0"
		if e.preAlloc != "" {
			pre = e.preAlloc
		}
		return sval{t: fmt.Sprintf("(and (not (= %s 0)) (not (select %s %s)))", ref, pre, ref), sort: "Bool"}
	case "entry":
		// entry(p): the value of parameter p of the function under verification when it was entered
		if id, ok := x.Args[0].(*spec.Ident); ok && c.fn != nil {
			for _, prm := range c.fn.Params {
				if prm.Name() == id.Name {
					return sval{t: q("p." + prm.Name()), sort: c.S.SortOf(prm.Type()), gt: prm.Type()}
				}
			}
		}
		return e.fail("entry() needs the name of a parameter of the function under verification: %s", x)
	case "samebase":
		// samebase(a, b): two slices share their backing array
		a, b := e.tr(x.Args[0]), e.tr(x.Args[1])
		return sval{t: fmt.Sprintf("(= (sbase %s) (sbase %s))", a.t, b.t), sort: "Bool"}
	case "allocated":
		v := e.tr(x.Args[0])
		ref := v.t
		if v.sort == "Slice" {
			ref = "(sbase " + v.t + ")"
		}
		return sval{t: fmt.Sprintf("(select %s %s)", c.region(e.st, "alloc", "(Array Int Bool)"), ref), sort: "Bool"}
	case "has":
		// has(m, k): map membership
		m, k := e.tr(x.Args[0]), e.tr(x.Args[1])
		mt, ok := types.Unalias(m.gt).Underlying().(*types.Map)
		if !ok || e.st == nil {
			return e.fail("has() needs a map and a heap: %s", x)
		}
		mh := c.region(e.st, c.mapHasKey(mt), c.mapHasSort(mt))
		return sval{t: fmt.Sprintf("(select (select %s %s) %s)", mh, m.t, k.t), sort: "Bool"}
	case "bytes":
		// bytes(b): the contents of a []byte (or *[N]byte) as a byte string, in the current heap
		v := e.tr(x.Args[0])
		if e.st == nil || v.gt == nil {
			return e.fail("bytes() needs a typed slice and a heap: %s", x)
		}
		switch t := types.Unalias(v.gt).Underlying().(type) {
		case *types.Slice:
			h := c.region(e.st, c.elemKey(t.Elem()), c.elemSort("Int"))
			return sval{t: fmt.Sprintf("(bytesToStr (select %s (sbase %s)) (soff %s) (slen %s))", h, v.t, v.t, v.t), sort: "Str", gt: types.Typ[types.String]}
		case *types.Pointer:
			if ar, ok := types.Unalias(t.Elem()).Underlying().(*types.Array); ok {
				h := c.region(e.st, c.elemKey(ar.Elem()), c.elemSort("Int"))
				return sval{t: fmt.Sprintf("(bytesToStr (select %s %s) 0 %d)", h, v.t, ar.Len()), sort: "Str", gt: types.Typ[types.String]}
			}
		}
		return e.fail("bytes() of %s", x.Args[0])
	case "idx":
		// idx(o, i) = o + i as the function symbol slice element accesses are written with (so that quantifier patterns match)
		a, b := e.tr(x.Args[0]), e.tr(x.Args[1])
		return sval{t: fmt.Sprintf("(idx %s %s)", a.t, b.t), sort: "Int", gt: types.Typ[types.Int]}
	case "elems", "off":
		// elems(s): the contents of the backing array of slice s in the current heap, as a mathematical array (a snapshot
		// that heap-free recursive spec functions can take as an argument); off(s): the offset of s[0] in it
		v := e.tr(x.Args[0])
		if v.sort != "Slice" || v.gt == nil {
			return e.fail("%s() needs a typed slice: %s", name, x)
		}
		if name == "off" {
			return sval{t: fmt.Sprintf("(soff %s)", v.t), sort: "Int", gt: types.Typ[types.Int]}
		}
		sl, ok := types.Unalias(v.gt).Underlying().(*types.Slice)
		if !ok || e.st == nil {
			return e.fail("elems() needs a slice and a heap: %s", x)
		}
		es := c.S.SortOf(sl.Elem())
		h := c.region(e.st, c.elemKey(sl.Elem()), c.elemSort(es))
		return sval{t: fmt.Sprintf("(select %s (sbase %s))", h, v.t), sort: "(Array Int " + es + ")", gt: types.NewArray(sl.Elem(), 0)}
	case "seen":
		// seen(m, k): the running `range m` loop has already produced key k
		m, k := e.tr(x.Args[0]), e.tr(x.Args[1])
		mt, ok := types.Unalias(m.gt).Underlying().(*types.Map)
		if !ok || e.st == nil {
			return e.fail("seen() needs a map and a heap: %s", x)
		}
		sr := c.region(e.st, "X:seen:"+typeKey(mt), "(Array Int (Array "+c.S.SortOf(mt.Key())+" Bool))")
		return sval{t: fmt.Sprintf("(select (select %s %s) %s)", sr, m.t, k.t), sort: "Bool"}
	case "string", "int", "int64", "int32", "int8", "int16", "uint", "uint64", "uint32", "uint8", "uint16", "byte", "rune":
		// conversions are mathematical identities in specs
		v := e.tr(x.Args[0])
		return sval{t: v.t, sort: v.sort, gt: v.gt}
	case "typeOf":
		v := e.tr(x.Args[0])
		return sval{t: "(typeOf " + v.t + ")", sort: "Int"}
	case "min", "max":
		a, b := e.tr(x.Args[0]), e.tr(x.Args[1])
		op := "<="
		if name == "max" {
			op = ">="
		}
		return sval{t: fmt.Sprintf("(ite (%s %s %s) %s %s)", op, a.t, b.t, a.t, b.t), sort: "Int", gt: a.gt}
	case "box":
		// box(x): the interface value holding x (needs a typed argument)
		v := e.tr(x.Args[0])
		if v.gt == nil {
			return e.fail("box of untyped value")
		}
		b := c.S.Box(v.gt)
		return sval{t: fmt.Sprintf("(%s %s)", b.Box, v.t), sort: "Iface"}
	}
	for i, a := range x.Args {
		args[i] = e.tr(a)
	}
	if pf, ok := c.P.Pures[name]; ok {
		if len(pf.Params) != len(args) {
			return e.fail("%s: wrong number of arguments in %s", name, x)
		}
		return e.applyPure(pf, args)
	}
	return e.fail("unknown spec function %q in %s", name, x)
}

// applyPure applies a spec function: uninterpreted (ghost), recursive
// (define-fun-rec, heap-free) or macro-expanded.
func (e *env) applyPure(pf *spec.PureFunc, args []sval) sval {
	c := e.c
	file := c.P.FileOfPkg[pf.File]
	rgt, rsort, err := c.P.ResolveType(pf.Result, file, c.S)
	if pf.Result == "bool" {
		rgt, rsort, err = types.Typ[types.Bool], "Bool", nil
	}
	if err != nil {
		return e.fail("%s: %v", pf.Name, err)
	}
	// coerce nil arguments
	psorts := make([]string, len(pf.Params))
	pgts := make([]types.Type, len(pf.Params))
	for i, p := range pf.Params {
		gt, srt, err := c.P.ResolveType(p.Type, file, c.S)
		if err != nil {
			return e.fail("%s: %v", pf.Name, err)
		}
		psorts[i], pgts[i] = srt, gt
		if args != nil && args[i].sort == "nil" {
			args[i] = nilOf(srt, gt)
		}
		if args != nil && args[i].sort != srt {
			return e.fail("%s: argument %d has sort %s, expected %s", pf.Name, i, args[i].sort, srt)
		}
	}
	ats := make([]string, len(args))
	for i, a := range args {
		ats[i] = a.t
	}
	app := func(fname string) string {
		if len(ats) == 0 {
			return fname
		}
		return "(" + fname + " " + strings.Join(ats, " ") + ")"
	}
	fname := q("f." + pf.Name)
	if pf.State {
		if len(args) != 1 {
			return e.fail("ghost state %s takes exactly one argument", pf.Name)
		}
		if e.st == nil {
			return e.fail("ghost state %s needs a heap state", pf.Name)
		}
		srt := "(Array " + psorts[0] + " " + rsort + ")"
		return sval{t: fmt.Sprintf("(select %s %s)", c.region(e.st, "X:"+pf.Name, srt), args[0].t), sort: rsort, gt: rgt}
	}
	if pf.Body == nil {
		c.S.declareOnce(fmt.Sprintf("(declare-fun %s (%s) %s)", fname, strings.Join(psorts, " "), rsort))
		return sval{t: app(fname), sort: rsort, gt: rgt}
	}
	if isRecursive(pf) || pf.Opaque {
		if !c.pureDef[pf.Name] {
			c.pureDef[pf.Name] = true
			// translate the body with parameters as SMT-bound names, no heap
			ne := &env{c: c, vars: map[string]sval{}, file: file, inRec: pf.Name}
			if tp := c.P.TypesPkgs[pf.Pkg]; tp != nil {
				ne.pkg = tp
			}
			var ps []string
			for i, p := range pf.Params {
				n := q("a." + p.Name)
				ne.vars[p.Name] = sval{t: n, sort: psorts[i], gt: pgts[i]}
				ps = append(ps, fmt.Sprintf("(%s %s)", n, psorts[i]))
			}
			// declare first so that the recursive call resolves; body is added as define-fun-rec
			idx := len(c.S.decls)
			c.S.decls = append(c.S.decls, "") // placeholder keeps ordering w.r.t. later declarations
			body := ne.tr(pf.Body)
			c.S.decls[idx] = ""
			if isRecursive(pf) {
				c.S.decls = append(c.S.decls, fmt.Sprintf("(define-fun-rec %s (%s) %s %s)", fname, strings.Join(ps, " "), rsort, body.t))
			} else {
				// opaque: a real function symbol with a defining axiom that is unfolded on demand (pattern = the application)
				var an []string
				for _, p := range pf.Params {
					an = append(an, q("a."+p.Name))
				}
				app := "(" + fname + " " + strings.Join(an, " ") + ")"
				if len(an) == 0 {
					app = fname
				}
				c.S.decls = append(c.S.decls, fmt.Sprintf("(declare-fun %s (%s) %s)", fname, strings.Join(psorts, " "), rsort))
				if len(an) == 0 {
					c.S.decls = append(c.S.decls, fmt.Sprintf("(assert (= %s %s))", app, body.t))
				} else {
					c.S.decls = append(c.S.decls, fmt.Sprintf("(assert (forall (%s) (! (= %s %s) :pattern (%s))))", strings.Join(ps, " "), app, body.t, app))
				}
			}
		}
		return sval{t: app(fname), sort: rsort, gt: rgt}
	}
	// macro expansion in the caller's heap state
	if e.depth > 24 {
		return e.fail("spec function expansion too deep at %s", pf.Name)
	}
	ne := &env{c: c, vars: map[string]sval{}, st: e.st, old: e.old, file: file, depth: e.depth + 1, preAlloc: e.preAlloc}
	if tp := c.P.TypesPkgs[pf.Pkg]; tp != nil {
		ne.pkg = tp
	}
	for i, p := range pf.Params {
		ne.vars[p.Name] = sval{t: args[i].t, sort: psorts[i], gt: pgts[i]}
	}
	r := ne.tr(pf.Body)
	return sval{t: r.t, sort: rsort, gt: rgt}
}

func isRecursive(pf *spec.PureFunc) bool {
	found := false
	var walk func(x spec.Expr)
	walk = func(x spec.Expr) {
		if x == nil || found {
			return
		}
		switch x := x.(type) {
		case *spec.Call:
			switch f := x.Fun.(type) {
			case *spec.Ident:
				if f.Name == pf.Name {
					found = true
				}
			case *spec.Select:
				if f.Sel == pf.Name {
					found = true
				}
			}
			for _, a := range x.Args {
				walk(a)
			}
		case *spec.Unary:
			walk(x.X)
		case *spec.Binary:
			walk(x.X)
			walk(x.Y)
		case *spec.Cond:
			walk(x.C)
			walk(x.A)
			walk(x.B)
		case *spec.Index:
			walk(x.X)
			walk(x.I)
		case *spec.SliceE:
			walk(x.X)
			walk(x.Lo)
			walk(x.Hi)
		case *spec.Select:
			walk(x.X)
		case *spec.Quant:
			walk(x.Body)
		case *spec.Old:
			walk(x.X)
		case *spec.TypeIs:
			walk(x.X)
		case *spec.Cast:
			walk(x.X)
		case *spec.Let:
			walk(x.Val)
			walk(x.Body)
		}
	}
	walk(pf.Body)
	return found
}
