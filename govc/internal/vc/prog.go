package vc

import (
	"go/constant"
	"fmt"
	"go/ast"
	"go/parser"
	"go/token"
	"go/types"
	"os"
	"path/filepath"
	"sort"
	"strings"

	"golang.org/x/tools/go/packages"
	"golang.org/x/tools/go/ssa"
	"golang.org/x/tools/go/ssa/ssautil"

	"govc/internal/spec"
)

// Prog is the loaded program plus all contracts.
type Prog struct {
	SSA       *ssa.Program
	Pkgs      []*packages.Package
	Fset      *token.FileSet
	ByPath    map[string]*packages.Package
	TypesPkgs map[string]*types.Package // every package (incl. deps) by path
	ByName    map[string][]*types.Package
	Funcs     map[string]*ssa.Function // by String()
	Contracts map[string]*spec.FuncContract
	Pures     map[string]*spec.PureFunc
	// GhostInits: names (sorted) of the ghost states declared with an initial value for fresh objects
	GhostInits []string
	Lemmas    map[string]*spec.Lemma
	LemmaList []*spec.Lemma
	SpecSorts map[string]bool
	Files     []*spec.File
	FileOfPkg map[string]*spec.File // contract file alias context per pure/lemma Pkg
	RepoDir   string
	immutG    map[*ssa.Global]bool
	srcCache  map[string][]string
	overlay   map[string][]byte
}

// Load loads /repo (with overlay, if any) and all contract/stub files.
func Load(repoDir string, stubDir string, overlay map[string][]byte) (*Prog, error) {
	cfg := &packages.Config{
		Mode:       packages.LoadAllSyntax,
		Dir:        repoDir,
		BuildFlags: []string{"-tags=verif", "-mod=readonly"},
		Env:        append(os.Environ(), "GOPROXY=off", "GOSUMDB=off", "GOTOOLCHAIN=local", "GOFLAGS=-mod=readonly"),
		Overlay:    overlay,
	}
	pkgs, err := packages.Load(cfg, "./...")
	if err != nil {
		return nil, err
	}
	var errs []string
	packages.Visit(pkgs, nil, func(p *packages.Package) {
		if strings.HasPrefix(p.PkgPath, ModulePath) {
			for _, e := range p.Errors {
				errs = append(errs, e.Error())
			}
		}
	})
	if len(errs) > 0 {
		return nil, fmt.Errorf("package errors: %s", strings.Join(errs, "; "))
	}
	prog, _ := ssautil.AllPackages(pkgs, ssa.InstantiateGenerics|ssa.GlobalDebug)
	prog.Build()
	p := &Prog{SSA: prog, Pkgs: pkgs, ByPath: map[string]*packages.Package{}, TypesPkgs: map[string]*types.Package{}, ByName: map[string][]*types.Package{},
		Funcs: map[string]*ssa.Function{}, Contracts: map[string]*spec.FuncContract{}, Pures: map[string]*spec.PureFunc{}, Lemmas: map[string]*spec.Lemma{},
		SpecSorts: map[string]bool{}, FileOfPkg: map[string]*spec.File{}, RepoDir: repoDir, immutG: map[*ssa.Global]bool{}, srcCache: map[string][]string{}, overlay: overlay}
	if len(pkgs) > 0 {
		p.Fset = pkgs[0].Fset
	}
	packages.Visit(pkgs, nil, func(pk *packages.Package) {
		p.ByPath[pk.PkgPath] = pk
		if pk.Types != nil {
			p.TypesPkgs[pk.PkgPath] = pk.Types
			p.ByName[pk.Types.Name()] = append(p.ByName[pk.Types.Name()], pk.Types)
		}
	})
	for f := range ssautil.AllFunctions(prog) {
		p.Funcs[f.String()] = f
	}
	// contract files inside the repo
	for _, pk := range pkgs {
		if len(pk.GoFiles) == 0 {
			continue
		}
		dir := filepath.Dir(pk.GoFiles[0])
		path := filepath.Join(dir, "zz_contracts_verif.go")
		var text []byte
		if ov, ok := overlay[path]; ok {
			text = ov
		} else if b, err := os.ReadFile(path); err == nil {
			text = b
		} else {
			continue
		}
		f, err := spec.ParseFile(path, string(text), true)
		if err != nil {
			return nil, err
		}
		f.Pkg = pk.PkgPath
		if err := p.addFile(f); err != nil {
			return nil, err
		}
	}
	// stub files
	stubs, _ := filepath.Glob(filepath.Join(stubDir, "*.spec"))
	sort.Strings(stubs)
	for _, path := range stubs {
		b, err := os.ReadFile(path)
		if err != nil {
			return nil, err
		}
		f, err := spec.ParseFile(path, string(b), false)
		if err != nil {
			return nil, err
		}
		if err := p.addFile(f); err != nil {
			return nil, err
		}
	}
	return p, nil
}

func (p *Prog) addFile(f *spec.File) error {
	p.Files = append(p.Files, f)
	for _, s := range f.Sorts {
		p.SpecSorts[s.Name] = true
	}
	for _, pf := range f.Pures {
		pf.Pkg = f.Pkg
		if _, dup := p.Pures[pf.Name]; dup {
			return fmt.Errorf("%s: duplicate spec function %s", f.Path, pf.Name)
		}
		p.Pures[pf.Name] = pf
		if pf.State && pf.Init != nil {
			p.GhostInits = append(p.GhostInits, pf.Name)
			sort.Strings(p.GhostInits)
		}
		p.FileOfPkg[pf.File] = f
	}
	for _, lm := range f.Lemmas {
		lm.Pkg = f.Pkg
		if _, dup := p.Lemmas[lm.Name]; dup {
			return fmt.Errorf("%s: duplicate lemma %s", f.Path, lm.Name)
		}
		p.Lemmas[lm.Name] = lm
		p.LemmaList = append(p.LemmaList, lm)
		p.FileOfPkg[lm.File] = f
	}
	for _, fc := range f.Funcs {
		key := p.expandKey(fc.Key, f)
		if fc.FuncType {
			key = "functype " + key
		}
		if _, dup := p.Contracts[key]; dup {
			return fmt.Errorf("%s: duplicate contract for %s", f.Path, key)
		}
		fc.Key = key
		p.Contracts[key] = fc
		p.FileOfPkg[fc.File] = f
	}
	p.FileOfPkg[f.Path] = f
	return nil
}

// expandKey turns "(*Token).verifyProofs" (package-relative) or
// "strings.HasPrefix" / "(ipld.Node).Kind" (alias-relative) into the ssa full name.
func (p *Prog) expandKey(key string, f *spec.File) string {
	expandPkg := func(name string) string {
		// name is "alias.Type" or "Type" or a full path
		if i := strings.LastIndex(name, "."); i >= 0 {
			alias := name[:i]
			if path, ok := f.Imports[alias]; ok {
				return path + name[i:]
			}
			if _, ok := p.TypesPkgs[alias]; ok {
				return name
			}
			if cands := p.ByName[alias]; len(cands) == 1 {
				return cands[0].Path() + name[i:]
			}
			return name
		}
		if f.Pkg != "" && name != "error" {
			return f.Pkg + "." + name
		}
		return name
	}
	if strings.HasPrefix(key, "(") {
		end := strings.Index(key, ")")
		recv := key[1:end]
		star := ""
		if strings.HasPrefix(recv, "*") {
			star = "*"
			recv = recv[1:]
		}
		return "(" + star + expandPkg(recv) + ")" + key[end+1:]
	}
	return expandPkg(key)
}

// ContractFor finds the contract of a function (generic instances use their origin's contract).
func (p *Prog) ContractFor(fn *ssa.Function) *spec.FuncContract {
	if c, ok := p.Contracts[fn.String()]; ok {
		return c
	}
	if o := fn.Origin(); o != nil {
		if c, ok := p.Contracts[o.String()]; ok {
			return c
		}
	}
	return nil
}

// ---------------------------------------------------------------- type resolution

// ResolveType resolves Go type syntax (or a spec sort name) in the context of a spec file.
// Returns (goType, smtSortName).  goType is nil for pure spec sorts.
func (p *Prog) ResolveType(text string, f *spec.File, S *Sorts) (types.Type, string, error) {
	text = strings.TrimSpace(text)
	if p.SpecSorts[text] {
		S.declareOnce(fmt.Sprintf("(declare-sort %s 0)", q("X."+text)))
		return nil, q("X." + text), nil
	}
	switch text {
	case "int":
		return types.Typ[types.Int], "Int", nil
	case "Str":
		return types.Typ[types.String], "Str", nil
	case "StrArr":
		// the contents of a []string's backing array (see the builtins elems / off)
		return types.NewArray(types.Typ[types.String], 0), "(Array Int Str)", nil
	}
	if strings.HasPrefix(text, "Arr[") && strings.HasSuffix(text, "]") {
		// Arr[T]: the contents of a []T's backing array (builtins elems / off), a mathematical array of T values
		et, es, err := p.ResolveType(text[4:len(text)-1], f, S)
		if err != nil {
			return nil, "", err
		}
		if et == nil {
			return nil, "(Array Int " + es + ")", nil
		}
		return types.NewArray(et, 0), "(Array Int " + es + ")", nil
	}
	if strings.HasPrefix(text, "func(") {
		// function values are opaque in specs
		return types.NewSignatureType(nil, nil, nil, nil, nil, false), "Fn", nil
	}
	e, err := parser.ParseExpr(text)
	if err != nil {
		return nil, "", fmt.Errorf("type %q: %v", text, err)
	}
	t, err := p.typeFromAST(e, f)
	if err != nil {
		return nil, "", fmt.Errorf("type %q: %v", text, err)
	}
	return t, S.SortOf(t), nil
}

func (p *Prog) lookupPkg(alias string, f *spec.File) *types.Package {
	if f != nil {
		if path, ok := f.Imports[alias]; ok {
			return p.TypesPkgs[path]
		}
		if own := p.TypesPkgs[f.Pkg]; own != nil {
			for _, imp := range own.Imports() {
				if imp.Name() == alias {
					return imp
				}
			}
			// honour import aliases of the package's source files
			if pk := p.ByPath[f.Pkg]; pk != nil {
				for _, file := range pk.Syntax {
					for _, is := range file.Imports {
						if is.Name != nil && is.Name.Name == alias {
							path := strings.Trim(is.Path.Value, "\"")
							return p.TypesPkgs[path]
						}
					}
				}
			}
		}
	}
	if tp, ok := p.TypesPkgs[alias]; ok {
		return tp
	}
	cands := p.ByName[alias]
	// prefer module packages
	for _, c := range cands {
		if strings.HasPrefix(c.Path(), ModulePath) {
			return c
		}
	}
	if len(cands) > 0 {
		return cands[0]
	}
	return nil
}

func (p *Prog) typeFromAST(e ast.Expr, f *spec.File) (types.Type, error) {
	switch x := e.(type) {
	case *ast.Ident:
		if obj := types.Universe.Lookup(x.Name); obj != nil {
			if tn, ok := obj.(*types.TypeName); ok {
				return tn.Type(), nil
			}
		}
		if f != nil && f.Pkg != "" {
			if tp := p.TypesPkgs[f.Pkg]; tp != nil {
				if obj := tp.Scope().Lookup(x.Name); obj != nil {
					if tn, ok := obj.(*types.TypeName); ok {
						return tn.Type(), nil
					}
				}
			}
		}
		return nil, fmt.Errorf("unknown type %s", x.Name)
	case *ast.SelectorExpr:
		id, ok := x.X.(*ast.Ident)
		if !ok {
			return nil, fmt.Errorf("bad qualified type")
		}
		tp := p.lookupPkg(id.Name, f)
		if tp == nil {
			return nil, fmt.Errorf("unknown package %s", id.Name)
		}
		obj := tp.Scope().Lookup(x.Sel.Name)
		tn, ok := obj.(*types.TypeName)
		if !ok {
			return nil, fmt.Errorf("unknown type %s.%s", id.Name, x.Sel.Name)
		}
		return tn.Type(), nil
	case *ast.StarExpr:
		t, err := p.typeFromAST(x.X, f)
		if err != nil {
			return nil, err
		}
		return types.NewPointer(t), nil
	case *ast.ArrayType:
		t, err := p.typeFromAST(x.Elt, f)
		if err != nil {
			return nil, err
		}
		if x.Len == nil {
			return types.NewSlice(t), nil
		}
		if bl, ok := x.Len.(*ast.BasicLit); ok {
			var n int64
			fmt.Sscan(bl.Value, &n)
			return types.NewArray(t, n), nil
		}
		return nil, fmt.Errorf("array length")
	case *ast.MapType:
		k, err := p.typeFromAST(x.Key, f)
		if err != nil {
			return nil, err
		}
		v, err := p.typeFromAST(x.Value, f)
		if err != nil {
			return nil, err
		}
		return types.NewMap(k, v), nil
	case *ast.InterfaceType:
		return types.NewInterfaceType(nil, nil), nil
	case *ast.ParenExpr:
		return p.typeFromAST(x.X, f)
	}
	return nil, fmt.Errorf("unsupported type syntax %T", e)
}

// ---------------------------------------------------------------- misc helpers

// SrcLine returns the trimmed source line of a position (for obligation names).
func (p *Prog) SrcLine(pos token.Pos) string {
	if !pos.IsValid() || p.Fset == nil {
		return ""
	}
	ps := p.Fset.Position(pos)
	lines, ok := p.srcCache[ps.Filename]
	if !ok {
		if ov, ok := p.overlay[ps.Filename]; ok {
			lines = strings.Split(string(ov), "\n")
		} else if b, err := os.ReadFile(ps.Filename); err == nil {
			lines = strings.Split(string(b), "\n")
		}
		p.srcCache[ps.Filename] = lines
	}
	if ps.Line-1 < len(lines) && ps.Line >= 1 {
		return strings.TrimSpace(lines[ps.Line-1])
	}
	return ""
}

// GlobalInitFunc: if g is a package-level variable of function type that is initialised with a
// function in its package initialiser and never stored to afterwards, that function.
func (p *Prog) GlobalInitFunc(g *ssa.Global) *ssa.Function {
	if g.Pkg == nil || !p.ImmutableGlobal(g) {
		return nil
	}
	var found *ssa.Function
	for _, m := range g.Pkg.Members {
		fn, ok := m.(*ssa.Function)
		if !ok || fn.Name() != "init" {
			continue
		}
		for _, b := range fn.Blocks {
			for _, in := range b.Instrs {
				if st, ok := in.(*ssa.Store); ok && st.Addr == ssa.Value(g) {
					if f, ok := st.Val.(*ssa.Function); ok {
						found = f
					} else {
						return nil
					}
				}
			}
		}
	}
	return found
}

// GlobalInitFresh reports whether an immutable package-level variable is initialised, once, with the result of
// errors.New or fmt.Errorf (a freshly allocated error value, distinct from every other such variable).
func (p *Prog) GlobalInitFresh(g *ssa.Global) bool {
	if g.Pkg == nil || !p.ImmutableGlobal(g) {
		return false
	}
	n, ok := 0, false
	for _, m := range g.Pkg.Members {
		fn, isF := m.(*ssa.Function)
		if !isF || fn.Name() != "init" {
			continue
		}
		for _, b := range fn.Blocks {
			for _, in := range b.Instrs {
				if st, isSt := in.(*ssa.Store); isSt && st.Addr == ssa.Value(g) {
					n++
					if call, isC := st.Val.(*ssa.Call); isC {
						if callee := call.Common().StaticCallee(); callee != nil {
							switch callee.String() {
							case "errors.New", "fmt.Errorf":
								ok = true
							}
						}
					}
				}
			}
		}
	}
	return n == 1 && ok
}

// GlobalInitBoxed reports whether an immutable interface-typed package-level variable is assigned exactly once, in its
// package initialiser, with a value boxed from a pointer or struct (ssa.MakeInterface): such a value is never nil.
func (p *Prog) GlobalInitBoxed(g *ssa.Global) bool {
	if g.Pkg == nil || !p.ImmutableGlobal(g) {
		return false
	}
	n, ok := 0, false
	for _, m := range g.Pkg.Members {
		fn, isF := m.(*ssa.Function)
		if !isF || !strings.HasPrefix(fn.Name(), "init") {
			continue
		}
		for _, b := range fn.Blocks {
			for _, in := range b.Instrs {
				if st, isSt := in.(*ssa.Store); isSt && st.Addr == ssa.Value(g) {
					n++
					if _, isMI := st.Val.(*ssa.MakeInterface); isMI {
						ok = true
					}
				}
			}
		}
	}
	return n == 1 && ok
}

// GlobalInitRegex returns the pattern text of an immutable package-level *regexp.Regexp variable that is assigned exactly
// once, in its package initialiser, with regexp.MustCompile(<constant>).
func (p *Prog) GlobalInitRegex(g *ssa.Global) (string, bool) {
	if g.Pkg == nil || !p.ImmutableGlobal(g) {
		return "", false
	}
	found, n, ok := "", 0, false
	for _, m := range g.Pkg.Members {
		fn, isF := m.(*ssa.Function)
		if !isF || !strings.HasPrefix(fn.Name(), "init") {
			continue
		}
		for _, b := range fn.Blocks {
			for _, in := range b.Instrs {
				if st, isSt := in.(*ssa.Store); isSt && st.Addr == ssa.Value(g) {
					n++
					if call, isC := st.Val.(*ssa.Call); isC {
						if callee := call.Common().StaticCallee(); callee != nil && callee.String() == "regexp.MustCompile" && len(call.Common().Args) == 1 {
							if cv, isK := call.Common().Args[0].(*ssa.Const); isK && cv.Value != nil && cv.Value.Kind() == constant.String {
								found, ok = constant.StringVal(cv.Value), true
							}
						}
					}
				}
			}
		}
	}
	return found, n == 1 && ok
}

// GlobalInitConst returns the integer constant an immutable package-level variable is initialised with.
func (p *Prog) GlobalInitConst(g *ssa.Global) (string, bool) {
	if g.Pkg == nil || !p.ImmutableGlobal(g) {
		return "", false
	}
	found, n := "", 0
	for _, m := range g.Pkg.Members {
		fn, ok := m.(*ssa.Function)
		if !ok || fn.Name() != "init" {
			continue
		}
		for _, b := range fn.Blocks {
			for _, in := range b.Instrs {
				if st, ok := in.(*ssa.Store); ok && st.Addr == ssa.Value(g) {
					n++
					if cv, ok := st.Val.(*ssa.Const); ok && cv.Value != nil && cv.Value.Kind() == constant.Int {
						found = cv.Value.ExactString()
					} else {
						return "", false
					}
				}
			}
		}
	}
	if n != 1 || found == "" {
		return "", false
	}
	if strings.HasPrefix(found, "-") {
		found = "(- " + found[1:] + ")"
	}
	return found, true
}

// ImmutableGlobal reports whether a package-level variable is never stored to
// outside its package initialiser (mechanical scan).
func (p *Prog) ImmutableGlobal(g *ssa.Global) bool {
	if v, ok := p.immutG[g]; ok {
		return v
	}
	ok := true
	for _, fn := range p.Funcs {
		if fn.Pkg == nil || !strings.HasPrefix(fn.Pkg.Pkg.Path(), ModulePath) {
			if g.Pkg != nil && strings.HasPrefix(g.Pkg.Pkg.Path(), ModulePath) {
				continue // dependencies cannot name go-ucan's globals
			}
		}
		if fn.Pkg != g.Pkg && fn.Pkg != nil {
			// unexported globals cannot be written from other packages; exported ones can
			if !g.Object().Exported() {
				continue
			}
		}
		if fn.Name() == "init" && fn.Pkg == g.Pkg {
			continue
		}
		if fn.Synthetic != "" && strings.HasPrefix(fn.Name(), "init") {
			continue
		}
		for _, b := range fn.Blocks {
			for _, in := range b.Instrs {
				if st, isSt := in.(*ssa.Store); isSt {
					if st.Addr == ssa.Value(g) {
						ok = false
					}
				}
				// address escaping (passed to a call / stored) also counts as mutable
				if c, isC := in.(ssa.CallInstruction); isC {
					for _, a := range c.Common().Args {
						if a == ssa.Value(g) {
							ok = false
						}
					}
				}
			}
		}
	}
	p.immutG[g] = ok
	return ok
}
