package vc

import (
	"fmt"
	"go/ast"
	"go/token"
	"go/types"
	"strings"

	"golang.org/x/tools/go/ssa"
)

func (c *fctx) safety(fr *frame, kind string, pos token.Pos, guard, goal string) {
	if goal == "true" {
		return
	}
	if kind != "conv-exact" && c.fn != nil {
		// a function whose interface includes panicking (its caller recovers) may also panic at run time
		if ct := c.P.ContractFor(c.fn); ct != nil && ct.MayPanic {
			return
		}
	}
	c.addObl(&Obligation{Name: fr.prefix + "safe:" + kind + "@" + c.P.SrcLine(pos), Kind: "safety", Guard: guard, Goal: goal, Pos: c.pos(pos), SrcLine: c.P.SrcLine(pos)})
}

func (c *fctx) instr(fr *frame, in ssa.Instruction, reach string, st *state) {
	switch x := in.(type) {
	case *ssa.DebugRef:
		if id, ok := x.Expr.(*ast.Ident); ok {
			if fr.debug == nil {
				fr.debug = map[string][]ssa.Instruction{}
			}
			fr.debug[id.Name] = append(fr.debug[id.Name], x)
		}
	case *ssa.Alloc:
		fr.vals[x] = val{t: c.doAlloc(fr, x.Type().(*types.Pointer).Elem(), reach, st, x.Comment)}
	case *ssa.FieldAddr:
		fr.vals[x] = val{a: c.fieldAddr(fr, x, reach)}
	case *ssa.IndexAddr:
		fr.vals[x] = val{a: c.indexAddr(fr, x, reach)}
	case *ssa.Field:
		xv := c.operand(fr, x.X)
		si := c.S.StructOf(x.X.Type())
		if si == nil {
			c.errorf("%s: field of opaque struct %s", fr.fn, x.X.Type())
			fr.vals[x] = val{t: c.S.Zero(x.Type())}
			return
		}
		fr.vals[x] = val{t: fmt.Sprintf("(%s %s)", si.Fields[x.Field].Acc, xv.t)}
	case *ssa.Index:
		xv := c.operand(fr, x.X)
		iv := c.operand(fr, x.Index)
		if ar, ok := types.Unalias(x.X.Type()).Underlying().(*types.Array); ok {
			c.safety(fr, "index", x.Pos(), reach, fmt.Sprintf("(and (<= 0 %s) (< %s %d))", iv.t, iv.t, ar.Len()))
		}
		if isString(x.X.Type()) {
			c.safety(fr, "index", x.Pos(), reach, fmt.Sprintf("(and (<= 0 %s) (< %s (len %s)))", iv.t, iv.t, xv.t))
			fr.vals[x] = val{t: fmt.Sprintf("(at %s %s)", xv.t, iv.t)}
			return
		}
		fr.vals[x] = val{t: fmt.Sprintf("(select %s %s)", xv.t, iv.t)}
	case *ssa.Lookup:
		c.lookup(fr, x, reach, st)
	case *ssa.Store:
		a := c.addrOfPointer(c.operand(fr, x.Addr), x.Addr.Type())
		c.nilCheck(fr, a, x.Addr, x.Pos(), reach)
		v := c.operand(fr, x.Val)
		// writes into objects allocated by this very activation need no frame obligation
		if _, base, _ := c.addrRoot(x.Addr); base != nil {
			switch b := base.(type) {
			case *ssa.Alloc:
				c.modeNoAssigns = true
			case *ssa.Slice:
				if _, ok := b.X.(*ssa.Alloc); ok {
					c.modeNoAssigns = true
				}
			}
		}
		c.store(a, c.termOf(v, "store"), st, reach, x.Pos(), fr)
		c.modeNoAssigns = false
	case *ssa.UnOp:
		c.unop(fr, x, reach, st)
	case *ssa.BinOp:
		fr.vals[x] = val{t: c.binop(fr, x, reach)}
	case *ssa.Convert:
		fr.vals[x] = c.convert(fr, x, reach, st)
	case *ssa.ChangeType:
		v := c.operand(fr, x.X)
		if from, to := c.S.SortOf(x.X.Type()), c.S.SortOf(x.Type()); from != to {
			// conversion between two named types with identical underlying struct type: an uninterpreted, total function
			name := q("conv." + typeKey(x.X.Type()) + "." + typeKey(x.Type()))
			c.S.declareOnce(fmt.Sprintf("(declare-fun %s (%s) %s)", name, from, to))
			fr.vals[x] = val{t: fmt.Sprintf("(%s %s)", name, c.termOf(v, "conversion"))}
			break
		}
		fr.vals[x] = v
	case *ssa.ChangeInterface:
		fr.vals[x] = c.operand(fr, x.X)
	case *ssa.MakeInterface:
		v := c.operand(fr, x.X)
		b := c.S.Box(x.X.Type())
		vv := v
		fr.vals[x] = val{t: fmt.Sprintf("(%s %s)", b.Box, c.termOf(v, "make interface")), dynT: x.X.Type(), dynV: &vv}
	case *ssa.TypeAssert:
		c.typeAssert(fr, x, reach)
	case *ssa.Extract:
		tv := c.operand(fr, x.Tuple)
		if x.Index < len(tv.tup) {
			fr.vals[x] = tv.tup[x.Index]
		} else {
			c.errorf("%s: extract from non-tuple %s", fr.fn, x.Tuple.Name())
			fr.vals[x] = val{t: c.S.Zero(x.Type())}
		}
	case *ssa.MakeClosure:
		var bs []val
		for _, b := range x.Bindings {
			bs = append(bs, c.operand(fr, b))
		}
		cv := c.fresh("clo", "Fn")
		c.assume(fmt.Sprintf("(not (= %s nilFn))", cv))
		fr.vals[x] = val{t: cv, clo: &closure{fn: x.Fn.(*ssa.Function), bindings: bs}}
	case *ssa.MakeSlice:
		l := c.operand(fr, x.Len).t
		cp := c.operand(fr, x.Cap).t
		c.safety(fr, "makeslice", x.Pos(), reach, fmt.Sprintf("(and (<= 0 %s) (<= %s %s))", l, l, cp))
		et := x.Type().Underlying().(*types.Slice).Elem()
		es := c.S.SortOf(et)
		r := c.allocate(st, reach, "make")
		key, srt := c.elemKey(et), c.elemSort(es)
		c.loopCheck(fr, key)
		c.setRegion(st, key, srt, fmt.Sprintf("(store %s %s %s)", c.region(st, key, srt), r, c.S.ConstArray("Int", es, c.S.Zero(et))))
		fr.vals[x] = val{t: fmt.Sprintf("(mkslice %s 0 %s %s)", r, l, cp)}
	case *ssa.MakeMap:
		mt := x.Type().Underlying().(*types.Map)
		r := c.allocate(st, reach, "map")
		ks := c.S.SortOf(mt.Key())
		hk, hs := c.mapHasKey(mt), c.mapHasSort(mt)
		lk := c.mapLenKey(mt)
		c.loopCheck(fr, hk)
		c.loopCheck(fr, lk)
		c.setRegion(st, hk, hs, fmt.Sprintf("(store %s %s %s)", c.region(st, hk, hs), r, c.S.ConstArray(ks, "Bool", "false")))
		c.setRegion(st, lk, "(Array Int Int)", fmt.Sprintf("(store %s %s 0)", c.region(st, lk, "(Array Int Int)"), r))
		fr.vals[x] = val{t: r}
	case *ssa.MapUpdate:
		mt := x.Map.Type().Underlying().(*types.Map)
		m := c.operand(fr, x.Map).t
		k := c.termOf(c.operand(fr, x.Key), "map key")
		v := c.termOf(c.operand(fr, x.Value), "map value")
		c.safety(fr, "nil-map-write", x.Pos(), reach, fmt.Sprintf("(not (= %s 0))", m))
		hk, hs := c.mapHasKey(mt), c.mapHasSort(mt)
		vk, vsrt := c.mapValKey(mt), c.mapValSort(mt)
		lk := c.mapLenKey(mt)
		c.noteWrite(hk, m, reach, x.Pos(), fr, st)
		c.noteWrite(vk, m, reach, x.Pos(), fr, st)
		c.noteWrite(lk, m, reach, x.Pos(), fr, st)
		has := c.region(st, hk, hs)
		mv := c.region(st, vk, vsrt)
		ml := c.region(st, lk, "(Array Int Int)")
		c.setRegion(st, lk, "(Array Int Int)", fmt.Sprintf("(store %s %s (ite (select (select %s %s) %s) (select %s %s) (+ 1 (select %s %s))))", ml, m, has, m, k, ml, m, ml, m))
		c.setRegion(st, hk, hs, fmt.Sprintf("(store %s %s (store (select %s %s) %s true))", has, m, has, m, k))
		c.setRegion(st, vk, vsrt, fmt.Sprintf("(store %s %s (store (select %s %s) %s %s))", mv, m, mv, m, k, v))
	case *ssa.Slice:
		fr.vals[x] = c.sliceOp(fr, x, reach, st)
	case *ssa.Range:
		xv := c.operand(fr, x.X)
		fr.vals[x] = val{it: &iterState{x: xv, typ: x.X.Type()}}
		if mt, ok := types.Unalias(x.X.Type()).Underlying().(*types.Map); ok {
			// ghost: the set of keys this iteration has produced so far
			ks := c.S.SortOf(mt.Key())
			key, srt := "X:seen:"+typeKey(mt), "(Array Int (Array "+ks+" Bool))"
			c.loopCheck(fr, key)
			c.setRegion(st, key, srt, fmt.Sprintf("(store %s %s %s)", c.region(st, key, srt), xv.t, c.S.ConstArray(ks, "Bool", "false")))
		}
	case *ssa.Next:
		c.next(fr, x, reach, st)
	case *ssa.Defer:
		fr.defers = append(fr.defers, x)
	case *ssa.RunDefers:
		for i := len(fr.defers) - 1; i >= 0; i-- {
			d := fr.defers[i]
			if !d.Block().Dominates(x.Block()) {
				if !blockReaches(d.Block(), x.Block()) {
					continue // this defer statement cannot have executed on a path to here
				}
				c.errorf("%s: conditional defer (unsupported)", fr.fn)
				continue
			}
			c.call(fr, d, reach, st)
		}
	case *ssa.Call:
		fr.vals[x] = c.call(fr, x, reach, st)
	default:
		c.errorf("%s: unsupported instruction %T: %s", fr.fn, in, in)
		if v, ok := in.(ssa.Value); ok {
			fr.vals[v] = val{t: c.S.Zero(v.Type())}
		}
	}
}

func blockReaches(from, to *ssa.BasicBlock) bool {
	seen := map[*ssa.BasicBlock]bool{}
	stack := []*ssa.BasicBlock{from}
	for len(stack) > 0 {
		b := stack[len(stack)-1]
		stack = stack[:len(stack)-1]
		if b == to {
			return true
		}
		if seen[b] {
			continue
		}
		seen[b] = true
		stack = append(stack, b.Succs...)
	}
	return false
}

// loopCheck verifies a region written outside store() is in the enclosing loops' write sets.
func (c *fctx) loopCheck(fr *frame, key string) {
	for f := fr; f != nil; f = f.parent {
		for _, li := range f.loops {
			if f.cur != nil && li.blocks[f.cur] && li.writes != nil && li.writes[key] == nil {
				c.errorf("internal: write to region %s inside loop %d of %s is missing from the loop's write set", key, li.ordinal, f.fn)
			}
		}
	}
}

func (c *fctx) doAlloc(fr *frame, t types.Type, reach string, st *state, hint string) string {
	r := c.allocate(st, reach, hint)
	c.loopCheck(fr, "alloc")
	c.ghostInit(fr, t, r, st)
	if si := c.S.StructOf(t); si != nil {
		for _, f := range si.Fields {
			key, srt := "F:"+si.Name+"."+f.Name, "(Array Int "+f.Sort+")"
			c.loopCheck(fr, key)
			c.setRegion(st, key, srt, fmt.Sprintf("(store %s %s %s)", c.region(st, key, srt), r, c.S.Zero(f.T)))
		}
		return r
	}
	if ar, ok := types.Unalias(t).Underlying().(*types.Array); ok {
		es := c.S.SortOf(ar.Elem())
		key, srt := c.elemKey(ar.Elem()), c.elemSort(es)
		c.loopCheck(fr, key)
		c.setRegion(st, key, srt, fmt.Sprintf("(store %s %s %s)", c.region(st, key, srt), r, c.S.ConstArray("Int", es, c.S.Zero(ar.Elem()))))
		return r
	}
	srt := c.S.SortOf(t)
	key := c.cellKey(t)
	c.loopCheck(fr, key)
	c.setRegion(st, key, "(Array Int "+srt+")", fmt.Sprintf("(store %s %s %s)", c.region(st, key, "(Array Int "+srt+")"), r, c.S.Zero(t)))
	return r
}

// ghostInit gives the ghost states declared with an initial value (`ghost state g(x *T) R = e`) that value for a freshly
// allocated T (Go zero-initialises it; the declaration says what the abstract state of a zero T is).
func (c *fctx) ghostInit(fr *frame, t types.Type, ref string, st *state) {
	for _, name := range c.P.GhostInits {
		pf := c.P.Pures[name]
		if pf == nil || !pf.State || pf.Init == nil || len(pf.Params) != 1 {
			continue
		}
		file := c.P.FileOfPkg[pf.File]
		gt, psort, err := c.P.ResolveType(pf.Params[0].Type, file, c.S)
		if err != nil || gt == nil {
			continue
		}
		pt, ok := types.Unalias(gt).Underlying().(*types.Pointer)
		if !ok || !types.Identical(pt.Elem(), t) {
			continue
		}
		_, rsort, err := c.P.ResolveType(pf.Result, file, c.S)
		if err != nil {
			continue
		}
		e := &env{c: c, vars: map[string]sval{}, file: file}
		iv := e.tr(pf.Init)
		key, srt := "X:"+pf.Name, "(Array "+psort+" "+rsort+")"
		c.loopCheck(fr, key)
		c.setRegion(st, key, srt, fmt.Sprintf("(store %s %s %s)", c.region(st, key, srt), ref, iv.t))
	}
}

func (c *fctx) nilCheck(fr *frame, a *addr, ptr ssa.Value, pos token.Pos, reach string) {
	if a.kind == aCell || a.kind == aField && len(a.path) == 0 {
		// refs produced by Alloc are known non-nil through their allocation fact; the solver discharges those at once
		if _, isAlloc := ptr.(*ssa.Alloc); isAlloc {
			return
		}
		if a.kind == aCell {
			c.safety(fr, "nil-deref", pos, reach, fmt.Sprintf("(not (= %s 0))", a.ref))
		}
	}
}

func (c *fctx) fieldAddr(fr *frame, x *ssa.FieldAddr, reach string) *addr {
	xv := c.operand(fr, x.X)
	st := types.Unalias(x.X.Type()).Underlying().(*types.Pointer).Elem()
	si := c.S.StructOf(st)
	ft := st.Underlying().(*types.Struct).Field(x.Field).Type()
	if si == nil {
		c.errorf("%s: field address in opaque struct %s", fr.fn, st)
		return &addr{kind: aCell, key: "P:Int", ref: "0", typ: ft, rootSort: "Int"}
	}
	f := si.Fields[x.Field]
	if xv.a != nil {
		n := *xv.a
		n.path = append(append([]pathStep{}, xv.a.path...), pathStep{si, x.Field})
		if n.rootT == nil {
			n.rootT = xv.a.typ
		}
		n.typ = ft
		return &n
	}
	if _, isAlloc := x.X.(*ssa.Alloc); !isAlloc {
		c.safety(fr, "nil-deref", x.Pos(), reach, fmt.Sprintf("(not (= %s 0))", xv.t))
	}
	return &addr{kind: aField, key: "F:" + si.Name + "." + f.Name, ref: xv.t, typ: ft, rootSort: f.Sort}
}

func (c *fctx) indexAddr(fr *frame, x *ssa.IndexAddr, reach string) *addr {
	xv := c.operand(fr, x.X)
	iv := c.operand(fr, x.Index).t
	switch t := types.Unalias(x.X.Type()).Underlying().(type) {
	case *types.Slice:
		es := c.S.SortOf(t.Elem())
		c.safety(fr, "index", x.Pos(), reach, fmt.Sprintf("(and (<= 0 %s) (< %s (slen %s)))", iv, iv, xv.t))
		return &addr{kind: aElem, key: c.elemKey(t.Elem()), ref: "(sbase " + xv.t + ")", idx: fmt.Sprintf("(idx (soff %s) %s)", xv.t, iv), typ: t.Elem(), rootSort: es}
	case *types.Pointer:
		ar := types.Unalias(t.Elem()).Underlying().(*types.Array)
		es := c.S.SortOf(ar.Elem())
		if xv.a != nil {
			c.errorf("%s: index into array inside a struct (unsupported)", fr.fn)
			return &addr{kind: aElem, key: c.elemKey(ar.Elem()), ref: "0", idx: iv, typ: ar.Elem(), rootSort: es}
		}
		if _, isAlloc := x.X.(*ssa.Alloc); !isAlloc {
			c.safety(fr, "nil-deref", x.Pos(), reach, fmt.Sprintf("(not (= %s 0))", xv.t))
		}
		c.safety(fr, "index", x.Pos(), reach, fmt.Sprintf("(and (<= 0 %s) (< %s %d))", iv, iv, ar.Len()))
		return &addr{kind: aElem, key: c.elemKey(ar.Elem()), ref: xv.t, idx: iv, typ: ar.Elem(), rootSort: es}
	}
	c.errorf("%s: IndexAddr on %s", fr.fn, x.X.Type())
	return &addr{kind: aCell, key: "P:Int", ref: "0", typ: types.Typ[types.Int], rootSort: "Int"}
}

func (c *fctx) lookup(fr *frame, x *ssa.Lookup, reach string, st *state) {
	xv := c.operand(fr, x.X)
	iv := c.operand(fr, x.Index)
	switch t := types.Unalias(x.X.Type()).Underlying().(type) {
	case *types.Basic: // string
		c.safety(fr, "index", x.Pos(), reach, fmt.Sprintf("(and (<= 0 %s) (< %s (len %s)))", iv.t, iv.t, xv.t))
		fr.vals[x] = val{t: fmt.Sprintf("(at %s %s)", xv.t, iv.t)}
	case *types.Map:
		vs := c.S.SortOf(t.Elem())
		has := c.region(st, c.mapHasKey(t), c.mapHasSort(t))
		mv := c.region(st, c.mapValKey(t), c.mapValSort(t))
		k := c.termOf(iv, "map key")
		ok := fmt.Sprintf("(and (not (= %s 0)) (select (select %s %s) %s))", xv.t, has, xv.t, k)
		v := c.define("mapv", vs, fmt.Sprintf("(ite %s (select (select %s %s) %s) %s)", ok, mv, xv.t, k, c.S.Zero(t.Elem())))
		c.assumeFacts(reach, v, t.Elem(), st)
		if x.CommaOk {
			fr.vals[x] = val{tup: []val{{t: v}, {t: ok}}}
		} else {
			fr.vals[x] = val{t: v}
		}
	default:
		c.errorf("%s: Lookup on %s", fr.fn, x.X.Type())
	}
}

func (c *fctx) unop(fr *frame, x *ssa.UnOp, reach string, st *state) {
	switch x.Op {
	case token.MUL:
		pv := c.operand(fr, x.X)
		a := c.addrOfPointer(pv, x.X.Type())
		c.nilCheck(fr, a, x.X, x.Pos(), reach)
		if g, ok := x.X.(*ssa.Global); ok {
			c.globalFacts(g, st)
			if _, isSig := types.Unalias(x.Type()).Underlying().(*types.Signature); isSig {
				if f := c.P.GlobalInitFunc(g); f != nil {
					c.used["global-fact:"+g.String()+" is only assigned by its initialiser (SSA scan)"] = true
					fr.vals[x] = val{t: c.fnConst(f), clo: &closure{fn: f}}
					return
				}
			}
		}
		t := c.load(a, st)
		srt := c.S.SortOf(x.Type())
		n := c.define("ld", srt, t)
		if c.initialRegion(a, st) {
			// a value read from memory that has not been written since entry was reachable at entry
			if fs := c.typeFacts(n, x.Type(), "alloc0", 0); len(fs) > 0 {
				c.assume(implies(reach, and(fs...)))
			}
		} else {
			c.assumeFacts(reach, n, x.Type(), st)
		}
		fr.vals[x] = val{t: n}
	case token.NOT:
		fr.vals[x] = val{t: not(c.operand(fr, x.X).t)}
	case token.SUB:
		v := c.operand(fr, x.X).t
		if c.S.SortOf(x.Type()) == "Float" {
			c.S.declareOnce("(declare-fun fneg (Float) Float)")
			fr.vals[x] = val{t: "(fneg " + v + ")"}
			return
		}
		fr.vals[x] = val{t: c.define("neg", "Int", Wrap1("(- "+v+")", x.Type()))}
	default:
		c.errorf("%s: unsupported unary operator %s", fr.fn, x.Op)
		fr.vals[x] = val{t: c.S.Zero(x.Type())}
	}
}

// globalFacts: package-level error sentinels that are never reassigned are non-nil and keep their initial value.
func (c *fctx) globalFacts(g *ssa.Global, st *state) {
	elem := g.Type().(*types.Pointer).Elem()
	if b, isB := types.Unalias(elem).Underlying().(*types.Basic); isB && b.Info()&types.IsInteger != 0 {
		// an integer variable that is only ever assigned one constant, in its package initialiser
		if cv, ok := c.P.GlobalInitConst(g); ok {
			key := "G:" + g.String()
			init := q("H0." + key)
			c.region(&state{h: map[string]string{}}, key, "Int")
			if !c.used["global-fact:"+key] {
				c.used["global-fact:"+key] = true
				c.assumeGlobal(fmt.Sprintf("(= %s %s)", init, cv))
			}
		}
		return
	}
	if pt, isP := types.Unalias(elem).Underlying().(*types.Pointer); isP {
		// a *regexp.Regexp compiled once from a constant pattern: non-nil, and its source text is that pattern
		// (contracts condition what they assume about a regular expression on reSource, so that an edited pattern
		// no longer gets the facts stated for the old one)
		if nt, isN := types.Unalias(pt.Elem()).(*types.Named); isN && nt.Obj().Pkg() != nil && nt.Obj().Pkg().Path() == "regexp" && nt.Obj().Name() == "Regexp" {
			if pat, ok := c.P.GlobalInitRegex(g); ok {
				key := "G:" + g.String()
				init := q("H0." + key)
				srt := c.S.SortOf(elem)
				c.region(&state{h: map[string]string{}}, key, srt)
				if !c.used["global-fact:"+key] {
					c.used["global-fact:"+key] = true
					fname := q("f.reSource")
					c.S.declareOnce(fmt.Sprintf("(declare-fun %s (%s) Str)", fname, srt))
					c.assumeGlobal(fmt.Sprintf("(= (%s %s) %s)", fname, init, c.S.StrLit(pat)))
				}
			}
		}
		return
	}
	if !types.Identical(elem, types.Universe.Lookup("error").Type()) {
		// an interface-typed variable assigned once, in its package initialiser, with a freshly boxed value is non-nil
		if _, isI := types.Unalias(elem).Underlying().(*types.Interface); isI && c.P.GlobalInitBoxed(g) {
			key := "G:" + g.String()
			init := q("H0." + key)
			c.region(&state{h: map[string]string{}}, key, "Iface")
			if !c.used["global-fact:"+key] {
				c.used["global-fact:"+key] = true
				c.assumeGlobal(fmt.Sprintf("(not (= %s nilI))", init))
			}
		}
		return
	}
	if !c.P.ImmutableGlobal(g) {
		return
	}
	key := "G:" + g.String()
	init := q("H0." + key)
	c.region(&state{h: map[string]string{}}, key, "Iface")
	fact := fmt.Sprintf("(not (= %s nilI))", init)
	if !c.used["global-fact:"+key] {
		c.used["global-fact:"+key] = true
		c.assumeGlobal(fact)
		// sentinel errors created by distinct errors.New / fmt.Errorf calls are distinct values
		if c.P.GlobalInitFresh(g) {
			for _, o := range c.freshGlobals {
				c.assumeGlobal(fmt.Sprintf("(not (= %s %s))", init, o))
			}
			c.freshGlobals = append(c.freshGlobals, init)
		}
	}
}

func isFloat(t types.Type) bool {
	b, ok := types.Unalias(t).Underlying().(*types.Basic)
	return ok && b.Info()&types.IsFloat != 0
}

func isString(t types.Type) bool {
	b, ok := types.Unalias(t).Underlying().(*types.Basic)
	return ok && b.Info()&types.IsString != 0
}

func isUnsigned(t types.Type) bool {
	b, ok := types.Unalias(t).Underlying().(*types.Basic)
	return ok && b.Info()&types.IsUnsigned != 0
}

func (c *fctx) binop(fr *frame, x *ssa.BinOp, reach string) string {
	a := c.operand(fr, x.X)
	b := c.operand(fr, x.Y)
	at, bt := c.termOf(a, "binop"), c.termOf(b, "binop")
	xt := x.X.Type()
	switch x.Op {
	case token.EQL, token.NEQ:
		var t string
		srt := c.S.SortOf(xt)
		switch {
		case srt == "Slice":
			// only comparison with nil is legal
			other := at
			if isNilConst(x.X) {
				other = bt
			}
			t = fmt.Sprintf("(= (sbase %s) 0)", other)
		case srt == "Float":
			c.S.declareOnce("(declare-fun feq (Float Float) Bool)")
			t = fmt.Sprintf("(feq %s %s)", at, bt)
		default:
			t = c.eqTerm(at, bt, xt, srt)
		}
		if x.Op == token.NEQ {
			t = not(t)
		}
		return t
	case token.LSS, token.LEQ, token.GTR, token.GEQ:
		op := map[token.Token]string{token.LSS: "<", token.LEQ: "<=", token.GTR: ">", token.GEQ: ">="}[x.Op]
		if isString(xt) {
			switch x.Op {
			case token.LSS:
				return fmt.Sprintf("(strlt %s %s)", at, bt)
			case token.GTR:
				return fmt.Sprintf("(strlt %s %s)", bt, at)
			case token.LEQ:
				return fmt.Sprintf("(not (strlt %s %s))", bt, at)
			default:
				return fmt.Sprintf("(not (strlt %s %s))", at, bt)
			}
		}
		if isFloat(xt) {
			c.S.declareOnce("(declare-fun flt (Float Float) Bool)")
			c.S.declareOnce("(declare-fun fle (Float Float) Bool)")
			switch x.Op {
			case token.LSS:
				return fmt.Sprintf("(flt %s %s)", at, bt)
			case token.GTR:
				return fmt.Sprintf("(flt %s %s)", bt, at)
			case token.LEQ:
				return fmt.Sprintf("(fle %s %s)", at, bt)
			default:
				return fmt.Sprintf("(fle %s %s)", bt, at)
			}
		}
		return fmt.Sprintf("(%s %s %s)", op, at, bt)
	case token.ADD:
		if isString(xt) {
			return fmt.Sprintf("(strcat %s %s)", at, bt)
		}
		if isFloat(xt) {
			c.S.declareOnce("(declare-fun fadd (Float Float) Float)")
			return fmt.Sprintf("(fadd %s %s)", at, bt)
		}
		return c.define("add", "Int", Wrap1(fmt.Sprintf("(+ %s %s)", at, bt), x.Type()))
	case token.SUB:
		if isFloat(xt) {
			c.S.declareOnce("(declare-fun fsub (Float Float) Float)")
			return fmt.Sprintf("(fsub %s %s)", at, bt)
		}
		return c.define("sub", "Int", Wrap1(fmt.Sprintf("(- %s %s)", at, bt), x.Type()))
	case token.MUL:
		if isFloat(xt) {
			c.S.declareOnce("(declare-fun fmul (Float Float) Float)")
			return fmt.Sprintf("(fmul %s %s)", at, bt)
		}
		return c.define("mul", "Int", Wrap(fmt.Sprintf("(* %s %s)", at, bt), x.Type()))
	case token.QUO, token.REM:
		if isFloat(xt) {
			c.S.declareOnce("(declare-fun fdiv (Float Float) Float)")
			return fmt.Sprintf("(fdiv %s %s)", at, bt)
		}
		c.safety(fr, "div-by-zero", x.Pos(), reach, fmt.Sprintf("(not (= %s 0))", bt))
		// Go truncates toward zero
		quo := fmt.Sprintf("(let ((q!q (div (abs %s) (abs %s)))) (ite (= (>= %s 0) (>= %s 0)) q!q (- q!q)))", at, bt, at, bt)
		if x.Op == token.QUO {
			return c.define("quo", "Int", Wrap1(quo, x.Type()))
		}
		return c.define("rem", "Int", fmt.Sprintf("(- %s (* %s %s))", at, bt, quo))
	case token.LAND:
		return and(at, bt)
	case token.LOR:
		return or(at, bt)
	case token.AND, token.OR, token.XOR, token.SHL, token.SHR, token.AND_NOT:
		name := map[token.Token]string{token.AND: "bitand", token.OR: "bitor", token.XOR: "bitxor", token.SHL: "shl", token.SHR: "shr", token.AND_NOT: "bitandnot"}[x.Op]
		c.S.declareOnce(fmt.Sprintf("(declare-fun %s (Int Int) Int)", name))
		c.used["abstracted:bit-operation "+name+" (uninterpreted, result only range-constrained)"] = true
		r := c.define(name, "Int", fmt.Sprintf("(%s %s %s)", name, at, bt))
		c.assumeFacts(reach, r, x.Type(), nil)
		return r
	}
	c.errorf("%s: unsupported binary operator %s", fr.fn, x.Op)
	return c.S.Zero(x.Type())
}

func isNilConst(v ssa.Value) bool {
	k, ok := v.(*ssa.Const)
	return ok && k.Value == nil
}

func (c *fctx) convert(fr *frame, x *ssa.Convert, reach string, st *state) val {
	v := c.operand(fr, x.X)
	from, to := types.Unalias(x.X.Type()).Underlying(), types.Unalias(x.Type()).Underlying()
	fb, fIsB := from.(*types.Basic)
	tb, tIsB := to.(*types.Basic)
	switch {
	case fIsB && tIsB && fb.Info()&types.IsInteger != 0 && tb.Info()&types.IsInteger != 0:
		// exact modular semantics; identity when the source range fits
		flo, fhi, _ := IntRange(fb)
		tlo, thi, _ := IntRange(tb)
		if rangeWithin(flo, fhi, tlo, thi) {
			return val{t: v.t}
		}
		if ct := c.P.ContractFor(c.fn); ct != nil && ct.ExactConv {
			c.safety(fr, "conv-exact", x.Pos(), reach, fmt.Sprintf("(and (<= %s %s) (<= %s %s))", tlo, v.t, v.t, thi))
		}
		return val{t: c.define("conv", "Int", Wrap(v.t, tb))}
	case fIsB && tIsB && fb.Info()&types.IsString != 0 && tb.Info()&types.IsString != 0:
		return v
	case fIsB && tIsB && fb.Info()&types.IsInteger != 0 && tb.Info()&types.IsFloat != 0:
		c.S.declareOnce("(declare-fun i2f (Int) Float)")
		return val{t: "(i2f " + v.t + ")"}
	case fIsB && tIsB && fb.Info()&types.IsFloat != 0 && tb.Info()&types.IsFloat != 0:
		return v
	case fIsB && tIsB && fb.Info()&types.IsFloat != 0 && tb.Info()&types.IsInteger != 0:
		c.S.declareOnce("(declare-fun f2i (Float) Int)")
		r := c.define("f2i", "Int", "(f2i "+v.t+")")
		c.assumeFacts(reach, r, x.Type(), nil)
		return val{t: r}
	case fIsB && fb.Info()&types.IsString != 0:
		// string -> []byte / []rune
		sl, ok := to.(*types.Slice)
		if !ok {
			break
		}
		eb, _ := types.Unalias(sl.Elem()).Underlying().(*types.Basic)
		r := c.allocate(st, reach, "conv")
		key, srt := c.elemKey(sl.Elem()), c.elemSort("Int")
		c.loopCheck(fr, key)
		arr := c.fresh("bytes", "(Array Int Int)")
		if eb == nil || eb.Kind() != types.Uint8 {
			// []rune(s): the code points of s, as an uninterpreted function of s
			c.S.declareOnce("(declare-fun runesArr (Str) (Array Int Int))")
			c.assume(fmt.Sprintf("(= %s (runesArr %s))", arr, v.t))
		}
		c.setRegion(st, key, srt, fmt.Sprintf("(store %s %s %s)", c.region(st, key, srt), r, arr))
		if eb != nil && eb.Kind() == types.Uint8 {
			c.assume(fmt.Sprintf("(forall ((i!c Int)) (! (=> (and (<= 0 i!c) (< i!c (len %s))) (= (select %s i!c) (at %s i!c))) :pattern ((select %s i!c))))", v.t, arr, v.t, arr))
			// the bytes of []byte(s), read back as a string, are s (true by construction; saves an extensionality argument)
			c.assume(fmt.Sprintf("(= (bytesToStr %s 0 (len %s)) %s)", arr, v.t, v.t))
			return val{t: fmt.Sprintf("(mkslice %s 0 (len %s) (len %s))", r, v.t, v.t)}
		}
		// []rune(s): abstract rune decoding
		c.S.declareOnce("(declare-fun runeCount (Str) Int)")
		c.S.declareOnce("(assert (forall ((s Str)) (! (and (<= 0 (runeCount s)) (<= (runeCount s) (len s))) :pattern ((runeCount s)))))")
		c.used["abstracted:[]rune(s) (rune decoding uninterpreted; 0 <= count <= len)"] = true
		c.assume(fmt.Sprintf("(forall ((i!c Int)) (! (and (<= 0 (select %s i!c)) (<= (select %s i!c) 1114111)) :pattern ((select %s i!c))))", arr, arr, arr))
		return val{t: fmt.Sprintf("(mkslice %s 0 (runeCount %s) (runeCount %s))", r, v.t, v.t)}
	case tIsB && tb.Info()&types.IsString != 0:
		if sl, ok := from.(*types.Slice); ok {
			eb, _ := types.Unalias(sl.Elem()).Underlying().(*types.Basic)
			if eb != nil && eb.Kind() == types.Uint8 {
				h := c.region(st, c.elemKey(sl.Elem()), c.elemSort("Int"))
				return val{t: c.define("str", "Str", fmt.Sprintf("(bytesToStr (select %s (sbase %s)) (soff %s) (slen %s))", h, v.t, v.t, v.t))}
			}
			s := c.fresh("str", "Str")
			if eb != nil && eb.Kind() == types.Uint8 {
				h := c.region(st, c.elemKey(sl.Elem()), c.elemSort("Int"))
				c.assume(fmt.Sprintf("(= (len %s) (slen %s))", s, v.t))
				c.assume(fmt.Sprintf("(forall ((i!c Int)) (! (=> (and (<= 0 i!c) (< i!c (slen %s))) (= (at %s i!c) (select (select %s (sbase %s)) (idx (soff %s) i!c)))) :pattern ((at %s i!c))))", v.t, s, h, v.t, v.t, s))
				return val{t: s}
			}
			c.used["abstracted:string([]rune) (rune encoding uninterpreted; runeSlice(s, lo, hi) names the text of code points lo..hi of s)"] = true
			// string(rs[lo:hi]) where rs holds the code points of s is runeSlice(s, lo, hi)
			c.S.declareOnce("(declare-fun runesArr (Str) (Array Int Int))")
			c.S.declareOnce("(declare-fun runesToStr ((Array Int Int) Int Int) Str)")
			c.S.declareOnce("(declare-fun runeSlice (Str Int Int) Str)")
			c.S.declareOnce("(declare-fun runeCount (Str) Int)")
			c.S.declareOnce("(assert (forall ((s Str) (lo Int) (n Int)) (! (= (runesToStr (runesArr s) lo n) (runeSlice s lo (+ lo n))) :pattern ((runesToStr (runesArr s) lo n)))))")
			c.S.declareOnce("(assert (forall ((s Str) (lo Int)) (! (= (runeSlice s lo lo) emptyStr) :pattern ((runeSlice s lo lo)))))")
			h := c.region(st, c.elemKey(sl.Elem()), c.elemSort("Int"))
			c.assume(fmt.Sprintf("(= %s (runesToStr (select %s (sbase %s)) (soff %s) (slen %s)))", s, h, v.t, v.t, v.t))
			return val{t: s}
		}
		if fIsB && fb.Info()&types.IsInteger != 0 {
			// string(r): the UTF-8 encoding of code point r — one byte r for ASCII, at least two bytes >= 0x80 otherwise
			c.used["abstracted:string(rune) (ASCII exact; other code points: a string of >= 2 bytes starting with a byte >= 0x80)"] = true
			sv := c.fresh("str", "Str")
			c.assume(fmt.Sprintf("(ite (and (<= 0 %s) (< %s 128)) (and (= (len %s) 1) (= (at %s 0) %s)) (and (>= (len %s) 2) (>= (at %s 0) 128)))", v.t, v.t, sv, sv, v.t, sv, sv))
			return val{t: sv}
		}
	}
	if _, ok := to.(*types.Pointer); ok {
		return v
	}
	c.errorf("%s: unsupported conversion %s -> %s", fr.fn, x.X.Type(), x.Type())
	return val{t: c.S.Zero(x.Type())}
}

func rangeWithin(flo, fhi, tlo, thi string) bool {
	// compare decimal strings with possible "(- n)" form
	parse := func(s string) (neg bool, digits string) {
		if strings.HasPrefix(s, "(- ") {
			return true, strings.TrimSuffix(s[3:], ")")
		}
		return false, s
	}
	le := func(a, b string) bool { // a <= b
		an, ad := parse(a)
		bn, bd := parse(b)
		cmp := func(x, y string) int {
			if len(x) != len(y) {
				if len(x) < len(y) {
					return -1
				}
				return 1
			}
			return strings.Compare(x, y)
		}
		switch {
		case an && !bn:
			return true
		case !an && bn:
			return ad == "0" && bd == "0"
		case an && bn:
			return cmp(ad, bd) >= 0
		default:
			return cmp(ad, bd) <= 0
		}
	}
	return le(tlo, flo) && le(fhi, thi)
}

func (c *fctx) typeAssert(fr *frame, x *ssa.TypeAssert, reach string) {
	v := c.operand(fr, x.X)
	var ok, res string
	if _, isI := types.Unalias(x.AssertedType).Underlying().(*types.Interface); isI {
		c.ifaceSeen[x.AssertedType.String()] = x.AssertedType
		iu := x.AssertedType.Underlying().(*types.Interface)
		if iu.NumMethods() == 0 {
			ok = fmt.Sprintf("(not (= %s nilI))", v.t)
		} else if xi, isXI := types.Unalias(x.X.Type()).Underlying().(*types.Interface); isXI && types.Implements(x.X.Type(), iu) && xi != nil {
			ok = fmt.Sprintf("(not (= %s nilI))", v.t)
		} else {
			ok = fmt.Sprintf("(and (not (= %s nilI)) (%s (typeOf %s)))", v.t, c.S.ImplPred(x.AssertedType), v.t)
		}
		res = v.t
	} else {
		b := c.S.Box(x.AssertedType)
		ok = fmt.Sprintf("(= (typeOf %s) %d)", v.t, b.Tag)
		res = fmt.Sprintf("(%s %s)", b.Unbox, v.t)
	}
	if x.CommaOk {
		okc := c.define("tok", "Bool", ok)
		r := c.define("tas", c.S.SortOf(x.AssertedType), fmt.Sprintf("(ite %s %s %s)", okc, res, c.S.Zero(x.AssertedType)))
		c.assumeFacts(and(reach, okc), r, x.AssertedType, nil)
		fr.vals[x] = val{tup: []val{{t: r}, {t: okc}}}
		return
	}
	c.safety(fr, "type-assert", x.Pos(), reach, ok)
	r := c.define("tas", c.S.SortOf(x.AssertedType), res)
	c.assumeFacts(reach, r, x.AssertedType, nil)
	fr.vals[x] = val{t: r}
}

func (c *fctx) sliceOp(fr *frame, x *ssa.Slice, reach string, st *state) val {
	xv := c.operand(fr, x.X)
	lo := "0"
	if x.Low != nil {
		lo = c.operand(fr, x.Low).t
	}
	switch t := types.Unalias(x.X.Type()).Underlying().(type) {
	case *types.Basic: // string
		hi := "(len " + xv.t + ")"
		if x.High != nil {
			hi = c.operand(fr, x.High).t
		}
		c.safety(fr, "slice-bounds", x.Pos(), reach, fmt.Sprintf("(and (<= 0 %s) (<= %s %s) (<= %s (len %s)))", lo, lo, hi, hi, xv.t))
		return val{t: c.define("sub", "Str", fmt.Sprintf("(strsub %s %s %s)", xv.t, lo, hi))}
	case *types.Slice:
		hi := "(slen " + xv.t + ")"
		if x.High != nil {
			hi = c.operand(fr, x.High).t
		}
		mx := "(scap " + xv.t + ")"
		if x.Max != nil {
			mx = c.operand(fr, x.Max).t
		}
		c.safety(fr, "slice-bounds", x.Pos(), reach, fmt.Sprintf("(and (<= 0 %s) (<= %s %s) (<= %s %s) (<= %s (scap %s)))", lo, lo, hi, hi, mx, mx, xv.t))
		return val{t: c.define("slc", "Slice", fmt.Sprintf("(mkslice (sbase %s) (+ (soff %s) %s) (- %s %s) (- %s %s))", xv.t, xv.t, lo, hi, lo, mx, lo))}
	case *types.Pointer:
		ar := types.Unalias(t.Elem()).Underlying().(*types.Array)
		n := fmt.Sprint(ar.Len())
		hi := n
		if x.High != nil {
			hi = c.operand(fr, x.High).t
		}
		mx := n
		if x.Max != nil {
			mx = c.operand(fr, x.Max).t
		}
		base := c.termOf(xv, "slice of array pointer")
		c.safety(fr, "slice-bounds", x.Pos(), reach, fmt.Sprintf("(and (<= 0 %s) (<= %s %s) (<= %s %s) (<= %s %s))", lo, lo, hi, hi, mx, mx, n))
		return val{t: c.define("slc", "Slice", fmt.Sprintf("(mkslice %s %s (- %s %s) (- %s %s))", base, lo, hi, lo, mx, lo))}
	}
	c.errorf("%s: Slice on %s", fr.fn, x.X.Type())
	return val{t: "nilSlice"}
}

func (c *fctx) next(fr *frame, x *ssa.Next, reach string, st *state) {
	it := c.operand(fr, x.Iter).it
	if it == nil {
		c.errorf("%s: Next on unknown iterator", fr.fn)
		return
	}
	ok := c.fresh("nxok", "Bool")
	if mt, isMap := types.Unalias(it.typ).Underlying().(*types.Map); isMap {
		ks, vs := c.S.SortOf(mt.Key()), c.S.SortOf(mt.Elem())
		k := c.fresh("nxk", ks)
		has := c.region(st, c.mapHasKey(mt), c.mapHasSort(mt))
		mv := c.region(st, c.mapValKey(mt), c.mapValSort(mt))
		v := c.define("nxv", vs, fmt.Sprintf("(select (select %s %s) %s)", mv, it.x.t, k))
		c.assume(implies(and(reach, ok), fmt.Sprintf("(and (not (= %s 0)) (select (select %s %s) %s))", it.x.t, has, it.x.t, k)))
		// every key is produced exactly once; when the iteration ends every key has been produced
		skey, ssrt := "X:seen:"+typeKey(mt), "(Array Int (Array "+ks+" Bool))"
		seen := c.region(st, skey, ssrt)
		c.assume(implies(and(reach, ok), fmt.Sprintf("(not (select (select %s %s) %s))", seen, it.x.t, k)))
		c.assume(implies(and(reach, not(ok)), fmt.Sprintf("(forall ((k!s %s)) (! (=> (and (not (= %s 0)) (select (select %s %s) k!s)) (select (select %s %s) k!s)) :pattern ((select (select %s %s) k!s))))", ks, it.x.t, has, it.x.t, seen, it.x.t, has, it.x.t)))
		c.loopCheck(fr, skey)
		c.setRegion(st, skey, ssrt, fmt.Sprintf("(ite %s (store %s %s (store (select %s %s) %s true)) %s)", ok, seen, it.x.t, seen, it.x.t, k, seen))
		c.assumeFacts(and(reach, ok), k, mt.Key(), st)
		c.assumeFacts(and(reach, ok), v, mt.Elem(), st)
		c.used["abstracted:map iteration order is arbitrary; each key is produced once; termination of map loops not modelled"] = true
		fr.vals[x] = val{tup: []val{{t: ok}, {t: k}, {t: v}}}
		return
	}
	// string iteration: index and rune abstracted
	i := c.fresh("nxi", "Int")
	r := c.fresh("nxr", "Int")
	c.assume(implies(and(reach, ok), fmt.Sprintf("(and (<= 0 %s) (< %s (len %s)) (<= 0 %s) (<= %s 1114111))", i, i, it.x.t, r, r)))
	c.used["abstracted:string range (rune decoding uninterpreted)"] = true
	fr.vals[x] = val{tup: []val{{t: ok}, {t: i}, {t: r}}}
}
