package vc

import (
	"fmt"
	"go/types"
	"sort"
	"strings"
)

// Module path of the code under verification.  Struct types declared inside the
// module are always transparent (SMT datatypes); foreign struct types are
// transparent only if all their fields are exported.
const ModulePath = "github.com/ucan-wg/go-ucan"

// Sorts keeps the program-dependent SMT declarations (datatypes for structs,
// box/unbox functions for interface values, heap regions) in creation order.
type Sorts struct {
	decls    []string          // SMT commands, in order
	structs  map[string]*StructInfo
	opaque   map[string]string // go type string -> sort name
	boxes    map[string]*BoxInfo
	tags     map[string]int
	consts   map[string]bool // declared constant names
	strLits  map[string]string
	nextTag  int
	impls    map[string]bool
	declared map[string]bool
}

type StructInfo struct {
	Name   string // SMT sort
	Ctor   string
	Fields []FieldInfo
	T      *types.Struct
	Named  types.Type
}

type FieldInfo struct {
	Name string // go field name
	Acc  string // SMT accessor
	Sort string
	T    types.Type
}

type BoxInfo struct {
	Box, Unbox string
	Tag        int
	Sort       string
	T          types.Type
}

func NewSorts() *Sorts {
	return &Sorts{structs: map[string]*StructInfo{}, opaque: map[string]string{}, boxes: map[string]*BoxInfo{},
		tags: map[string]int{}, consts: map[string]bool{}, strLits: map[string]string{}, nextTag: 1, impls: map[string]bool{}, declared: map[string]bool{}}
}

func (s *Sorts) Decls() []string { return s.decls }

func q(name string) string {
	name = strings.NewReplacer("|", "!", "\\", "!").Replace(name)
	return "|" + name + "|"
}

func shortType(t types.Type) string {
	return types.TypeString(t, func(p *types.Package) string {
		path := p.Path()
		path = strings.TrimPrefix(path, ModulePath+"/")
		if i := strings.LastIndex(path, "/"); i >= 0 && !strings.HasPrefix(p.Path(), ModulePath) {
			path = path[i+1:]
		}
		return path
	})
}

func inModule(t types.Type) bool {
	if n, ok := t.(*types.Named); ok && n.Obj().Pkg() != nil {
		return strings.HasPrefix(n.Obj().Pkg().Path(), ModulePath)
	}
	return false
}

// transparentExtern lists foreign struct types whose fields the code reads.
func structTransparent(named types.Type, st *types.Struct) bool {
	if named == nil || inModule(named) {
		return true
	}
	if st.NumFields() == 0 {
		return false
	}
	for i := 0; i < st.NumFields(); i++ {
		if !st.Field(i).Exported() {
			return false
		}
	}
	// large foreign structs are kept opaque unless small
	return st.NumFields() <= 12
}

// SortOf maps a Go type to an SMT sort, declaring what is needed.
func (s *Sorts) SortOf(t types.Type) string {
	switch u := t.(type) {
	case *types.Named:
		if st, ok := u.Underlying().(*types.Struct); ok {
			return s.structSort(u, st)
		}
		return s.SortOf(u.Underlying())
	case *types.Alias:
		return s.SortOf(types.Unalias(u))
	case *types.Basic:
		switch {
		case u.Info()&types.IsBoolean != 0:
			return "Bool"
		case u.Info()&types.IsInteger != 0:
			return "Int"
		case u.Info()&types.IsFloat != 0:
			return "Float"
		case u.Info()&types.IsString != 0:
			return "Str"
		case u.Kind() == types.UnsafePointer:
			return "Int"
		case u.Kind() == types.UntypedNil:
			return "Int"
		}
		return s.opaqueSort(t)
	case *types.Pointer, *types.Map, *types.Chan:
		return "Int"
	case *types.Slice:
		return "Slice"
	case *types.Array:
		return "(Array Int " + s.SortOf(u.Elem()) + ")"
	case *types.Interface:
		return "Iface"
	case *types.Signature:
		return "Fn"
	case *types.Struct:
		return s.structSort(nil, u)
	case *types.Tuple:
		return "Tuple!"
	case *types.TypeParam:
		return "Iface"
	}
	return s.opaqueSort(t)
}

func (s *Sorts) opaqueSort(t types.Type) string {
	key := t.String()
	if n, ok := s.opaque[key]; ok {
		return n
	}
	name := q("O." + shortType(t))
	s.opaque[key] = name
	s.decls = append(s.decls, fmt.Sprintf("(declare-sort %s 0)", name))
	s.decls = append(s.decls, fmt.Sprintf("(declare-const %s %s)", q("zero."+shortType(t)), name))
	return name
}

func (s *Sorts) structSort(named types.Type, st *types.Struct) string {
	var key string
	var disp string
	if named != nil {
		key = named.String()
		disp = shortType(named)
	} else {
		key = st.String()
		disp = shortType(st)
	}
	if si, ok := s.structs[key]; ok {
		return si.Name
	}
	if !structTransparent(named, st) {
		return s.opaqueSort(named)
	}
	si := &StructInfo{Name: q("S." + disp), Ctor: q("mk." + disp), T: st, Named: named}
	s.structs[key] = si // register before recursing (recursion goes through Int/Slice/Iface only)
	for i := 0; i < st.NumFields(); i++ {
		f := st.Field(i)
		si.Fields = append(si.Fields, FieldInfo{Name: f.Name(), Acc: q(disp + "." + f.Name()), Sort: s.SortOf(f.Type()), T: f.Type()})
	}
	var fs []string
	for _, f := range si.Fields {
		fs = append(fs, fmt.Sprintf("(%s %s)", f.Acc, f.Sort))
	}
	if len(fs) == 0 {
		s.decls = append(s.decls, fmt.Sprintf("(declare-datatypes ((%s 0)) (((%s))))", si.Name, si.Ctor))
	} else {
		s.decls = append(s.decls, fmt.Sprintf("(declare-datatypes ((%s 0)) (((%s %s))))", si.Name, si.Ctor, strings.Join(fs, " ")))
	}
	return si.Name
}

// StructOf returns the datatype info for a (possibly named) struct type, or nil if opaque.
func (s *Sorts) StructOf(t types.Type) *StructInfo {
	t = types.Unalias(t)
	st, ok := t.Underlying().(*types.Struct)
	if !ok {
		return nil
	}
	var named types.Type
	if n, ok := t.(*types.Named); ok {
		named = n
	}
	s.SortOf(t)
	key := st.String()
	if named != nil {
		key = named.String()
	}
	return s.structs[key]
}

// Zero value of a Go type as an SMT term.
func (s *Sorts) Zero(t types.Type) string {
	switch u := types.Unalias(t).Underlying().(type) {
	case *types.Basic:
		switch {
		case u.Info()&types.IsBoolean != 0:
			return "false"
		case u.Info()&types.IsInteger != 0:
			return "0"
		case u.Info()&types.IsString != 0:
			return "emptyStr"
		case u.Info()&types.IsFloat != 0:
			s.declareOnce("(declare-const zeroFloat Float)")
			return "zeroFloat"
		}
		return "0"
	case *types.Pointer, *types.Map, *types.Chan:
		return "0"
	case *types.Slice:
		return "nilSlice"
	case *types.Interface:
		return "nilI"
	case *types.Signature:
		return "nilFn"
	case *types.Struct:
		si := s.StructOf(t)
		if si == nil {
			s.SortOf(t)
			return q("zero." + shortType(types.Unalias(t)))
		}
		if len(si.Fields) == 0 {
			return si.Ctor
		}
		var fs []string
		for _, f := range si.Fields {
			fs = append(fs, s.Zero(f.T))
		}
		return "(" + si.Ctor + " " + strings.Join(fs, " ") + ")"
	case *types.Array:
		return s.ConstArray("Int", s.SortOf(u.Elem()), s.Zero(u.Elem()))
	}
	s.SortOf(t)
	return q("zero." + shortType(t))
}

// ConstArray returns an array term mapping every index to zero.
func (s *Sorts) ConstArray(idxSort, elemSort, zero string) string {
	switch zero {
	case "0", "false", "true":
		return fmt.Sprintf("((as const (Array %s %s)) %s)", idxSort, elemSort, zero)
	}
	name := q("zeroarr." + idxSort + "." + elemSort)
	s.declareOnce(fmt.Sprintf("(declare-const %s (Array %s %s))", name, idxSort, elemSort))
	s.declareOnce(fmt.Sprintf("(assert (forall ((i!z %s)) (! (= (select %s i!z) %s) :pattern ((select %s i!z)))))", idxSort, name, zero, name))
	return name
}

func (s *Sorts) declareOnce(cmd string) {
	if !s.declared[cmd] {
		s.declared[cmd] = true
		s.decls = append(s.decls, cmd)
	}
}

// Tag returns the dynamic type tag of a concrete Go type.
func (s *Sorts) Tag(t types.Type) int {
	key := types.Unalias(t).String()
	if n, ok := s.tags[key]; ok {
		return n
	}
	n := s.nextTag
	s.nextTag++
	s.tags[key] = n
	return n
}

// Box returns the box/unbox functions for storing a value of concrete type t in an interface.
func (s *Sorts) Box(t types.Type) *BoxInfo {
	t = types.Unalias(t)
	key := t.String()
	if b, ok := s.boxes[key]; ok {
		return b
	}
	srt := s.SortOf(t)
	b := &BoxInfo{Box: q("box." + shortType(t)), Unbox: q("unbox." + shortType(t)), Tag: s.Tag(t), Sort: srt, T: t}
	s.boxes[key] = b
	s.decls = append(s.decls,
		fmt.Sprintf("(declare-fun %s (%s) Iface)", b.Box, srt),
		fmt.Sprintf("(declare-fun %s (Iface) %s)", b.Unbox, srt),
		fmt.Sprintf("(assert (forall ((x %s)) (! (and (= (typeOf (%s x)) %d) (= (%s (%s x)) x)) :pattern ((%s x)))))", srt, b.Box, b.Tag, b.Unbox, b.Box, b.Box),
		fmt.Sprintf("(assert (forall ((i Iface)) (! (=> (= (typeOf i) %d) (= (%s (%s i)) i)) :pattern ((%s i)))))", b.Tag, b.Box, b.Unbox, b.Unbox),
	)
	return b
}

// ImplPred returns the name of the predicate "dynamic type tag implements interface I".
func (s *Sorts) ImplPred(iface types.Type) string {
	name := q("impl." + shortType(iface))
	s.declareOnce(fmt.Sprintf("(declare-fun %s (Int) Bool)", name))
	return name
}

// ImplFacts emits, for every concrete boxed type known so far, whether it implements each queried interface.
func (s *Sorts) ImplFacts(ifaces []types.Type) []string {
	var out []string
	keys := make([]string, 0, len(s.boxes))
	for k := range s.boxes {
		keys = append(keys, k)
	}
	sort.Strings(keys)
	for _, it := range ifaces {
		iu, ok := it.Underlying().(*types.Interface)
		if !ok {
			continue
		}
		p := s.ImplPred(it)
		for _, k := range keys {
			b := s.boxes[k]
			v := types.Implements(b.T, iu)
			out = append(out, fmt.Sprintf("(assert (= (%s %d) %v))", p, b.Tag, v))
		}
		out = append(out, fmt.Sprintf("(assert (not (%s 0)))", p))
	}
	return out
}

// StrLit returns a constant for a string literal with its defining axioms.
func (s *Sorts) StrLit(v string) string {
	if v == "" {
		return "emptyStr"
	}
	if n, ok := s.strLits[v]; ok {
		return n
	}
	name := fmt.Sprintf("strlit!%d", len(s.strLits))
	s.strLits[v] = name
	s.decls = append(s.decls, fmt.Sprintf("(declare-const %s Str) ; %q", name, trunc(v, 40)))
	s.decls = append(s.decls, fmt.Sprintf("(assert (= (len %s) %d))", name, len(v)))
	if len(v) <= 64 {
		for i := 0; i < len(v); i++ {
			s.decls = append(s.decls, fmt.Sprintf("(assert (= (at %s %d) %d))", name, i, v[i]))
		}
	}
	return name
}

func trunc(s string, n int) string {
	if len(s) > n {
		return s[:n] + "..."
	}
	return s
}

// IntRange returns the inclusive range of an integer type (64-bit int/uint).
func IntRange(t types.Type) (lo, hi string, ok bool) {
	b, isB := types.Unalias(t).Underlying().(*types.Basic)
	if !isB || b.Info()&types.IsInteger == 0 {
		return "", "", false
	}
	switch b.Kind() {
	case types.Int8:
		return "(- 128)", "127", true
	case types.Int16:
		return "(- 32768)", "32767", true
	case types.Int32:
		return "(- 2147483648)", "2147483647", true
	case types.Int, types.Int64, types.UntypedInt, types.UntypedRune:
		return "(- 9223372036854775808)", "9223372036854775807", true
	case types.Uint8:
		return "0", "255", true
	case types.Uint16:
		return "0", "65535", true
	case types.Uint32:
		return "0", "4294967295", true
	case types.Uint, types.Uint64, types.Uintptr:
		return "0", "18446744073709551615", true
	}
	return "", "", false
}

func intBits(t types.Type) (bits int, signed bool) {
	b, _ := types.Unalias(t).Underlying().(*types.Basic)
	if b == nil {
		return 64, true
	}
	switch b.Kind() {
	case types.Int8:
		return 8, true
	case types.Int16:
		return 16, true
	case types.Int32:
		return 32, true
	case types.Int, types.Int64, types.UntypedInt, types.UntypedRune:
		return 64, true
	case types.Uint8:
		return 8, false
	case types.Uint16:
		return 16, false
	case types.Uint32:
		return 32, false
	case types.Uint, types.Uint64, types.Uintptr:
		return 64, false
	}
	return 64, true
}

func pow2(n int) string {
	// decimal string of 2^n for n in {8,16,32,64}
	switch n {
	case 8:
		return "256"
	case 16:
		return "65536"
	case 32:
		return "4294967296"
	case 64:
		return "18446744073709551616"
	}
	panic("pow2")
}

// Wrap returns the term e (a mathematical integer) wrapped into the range of integer type t.
func Wrap(e string, t types.Type) string {
	lo, hi, ok := IntRange(t)
	if !ok {
		return e
	}
	bits, signed := intBits(t)
	m := pow2(bits)
	if signed {
		// ((e - lo) mod m) + lo
		return fmt.Sprintf("(+ (mod (- %s %s) %s) %s)", e, lo, m, lo)
	}
	_ = hi
	return fmt.Sprintf("(mod %s %s)", e, m)
}

// Wrap1 wraps assuming the value is off by at most one modulus (add/sub of in-range operands).
func Wrap1(e string, t types.Type) string {
	lo, hi, ok := IntRange(t)
	if !ok {
		return e
	}
	bits, _ := intBits(t)
	m := pow2(bits)
	return fmt.Sprintf("(let ((w!v %s)) (ite (> w!v %s) (- w!v %s) (ite (< w!v %s) (+ w!v %s) w!v)))", e, hi, m, lo, m)
}
