package vc

import (
	"sync"
	"fmt"
	"go/token"
	"go/types"
	"sort"
	"strings"

	"golang.org/x/tools/go/ssa"

	"govc/internal/spec"
)

const maxInlineDepth = 10

func (c *fctx) call(fr *frame, in ssa.CallInstruction, reach string, st *state) val {
	cm := in.Common()
	pos := in.Pos()
	var resT types.Type
	if v, ok := in.(ssa.Value); ok {
		resT = v.Type()
	}
	// builtins
	if b, ok := cm.Value.(*ssa.Builtin); ok {
		return c.builtin(fr, b, cm, reach, st, pos, resT)
	}
	if mc := isRangeFuncCall(in); mc != nil {
		c.rangeFunc(fr, in, mc, reach, st)
		return val{}
	}
	args := make([]val, 0, len(cm.Args)+1)
	if cm.IsInvoke() {
		recv := c.operand(fr, cm.Value)
		args = append(args, recv)
		for _, a := range cm.Args {
			args = append(args, c.operand(fr, a))
		}
		c.safety(fr, "nil-interface-call", pos, reach, fmt.Sprintf("(not (= %s nilI))", recv.t))
		key := "(" + types.Unalias(cm.Value.Type()).String() + ")." + cm.Method.Name()
		ct := c.P.Contracts[key]
		if ct == nil {
			c.errorf("%s: no contract for interface method %s", fr.fn, key)
			return c.havocResult(resT, reach, st)
		}
		sig := cm.Method.Type().(*types.Signature)
		return c.applyContract(fr, key, ct, nil, sig, true, args, st, reach, pos, resT)
	}
	for _, a := range cm.Args {
		args = append(args, c.operand(fr, a))
	}
	callee := cm.StaticCallee()
	var bindings []val
	if callee == nil {
		fv := c.operand(fr, cm.Value)
		if fv.clo != nil {
			callee = fv.clo.fn
			bindings = fv.clo.bindings
		}
	} else if mc, ok := cm.Value.(*ssa.MakeClosure); ok {
		bindings = c.operand(fr, mc).clo.bindings
	}
	if callee == nil {
		// call through an unknown function value: deterministic, effect-free application (assumption)
		fv := c.operand(fr, cm.Value)
		c.safety(fr, "nil-func-call", pos, reach, fmt.Sprintf("(not (= %s nilFn))", fv.t))
		if ct := c.P.Contracts["functype "+types.Unalias(cm.Value.Type()).String()]; ct != nil {
			return c.applyContract(fr, "functype "+types.Unalias(cm.Value.Type()).String(), ct, nil, cm.Signature(), false, args, st, reach, pos, resT)
		}
		return c.applyFnValue(fr, fv.t, cm.Signature(), args, reach, st, resT)
	}
	ct := c.P.ContractFor(callee)
	if ct != nil && !ct.Inline && len(bindings) == 0 {
		return c.applyContract(fr, callee.String(), ct, callee, callee.Signature, false, args, st, reach, pos, resT)
	}
	if c.canInline(fr, callee, ct) {
		return c.inline(fr, callee, args, bindings, st, reach, pos, resT, ct)
	}
	c.errorf("%s: call to %s has neither contract nor inlinable body", fr.fn, callee)
	return c.havocResult(resT, reach, st)
}

func (c *fctx) canInline(fr *frame, callee *ssa.Function, ct *spec.FuncContract) bool {
	if len(callee.Blocks) == 0 {
		return false
	}
	if fr.depth >= maxInlineDepth {
		return false
	}
	for f := fr; f != nil; f = f.parent {
		if f.fn == callee {
			return false // recursion needs a contract
		}
	}
	if ct != nil && ct.Inline {
		return true
	}
	if callee.Pkg == nil && callee.Parent() == nil {
		return false
	}
	pk := callee.Pkg
	if pk == nil && callee.Parent() != nil {
		pk = callee.Parent().Pkg
	}
	if pk == nil || !strings.HasPrefix(pk.Pkg.Path(), ModulePath) {
		return false
	}
	// loops in an inlined callee need invariants from a contract
	if len(findLoops(callee)) > 0 && (ct == nil || len(ct.Loops) == 0) {
		return false
	}
	return true
}

func (c *fctx) havocResult(t types.Type, reach string, st *state) val {
	if t == nil {
		return val{}
	}
	if tup, ok := t.(*types.Tuple); ok {
		if tup.Len() == 0 {
			return val{}
		}
		var vs []val
		for i := 0; i < tup.Len(); i++ {
			vs = append(vs, c.havocResult(tup.At(i).Type(), reach, st))
		}
		return val{tup: vs}
	}
	v := c.fresh("res", c.S.SortOf(t))
	c.assumeFacts(reach, v, t, st)
	return val{t: v}
}

func (c *fctx) applyFnValue(fr *frame, f string, sig *types.Signature, args []val, reach string, st *state, resT types.Type) val {
	c.used["assumed:calls through unknown function values are deterministic and effect-free"] = true
	var asorts, aterms []string
	for i, a := range args {
		asorts = append(asorts, c.S.SortOf(sig.Params().At(i).Type()))
		aterms = append(aterms, c.termOf(a, "function argument"))
	}
	mk := func(i int, t types.Type) val {
		name := q(fmt.Sprintf("apply.%s.%d", shortType(sig), i))
		c.S.declareOnce(fmt.Sprintf("(declare-fun %s (Fn %s) %s)", name, strings.Join(asorts, " "), c.S.SortOf(t)))
		r := c.define("app", c.S.SortOf(t), fmt.Sprintf("(%s %s %s)", name, f, strings.Join(aterms, " ")))
		c.assumeFacts(reach, r, t, st)
		return val{t: r}
	}
	res := sig.Results()
	switch res.Len() {
	case 0:
		return val{}
	case 1:
		return mk(0, res.At(0).Type())
	}
	var vs []val
	for i := 0; i < res.Len(); i++ {
		vs = append(vs, mk(i, res.At(i).Type()))
	}
	return val{tup: vs}
}

// ---------------------------------------------------------------- inlining

func (c *fctx) inline(fr *frame, callee *ssa.Function, args []val, bindings []val, st *state, reach string, pos token.Pos, resT types.Type, ct *spec.FuncContract) val {
	nf := &frame{fn: callee, vals: map[ssa.Value]val{}, prefix: fr.prefix + callee.Name() + ">", parent: fr, depth: fr.depth + 1, contract: ct}
	if len(args) != len(callee.Params) {
		c.errorf("%s: inlining %s: %d args for %d params", fr.fn, callee, len(args), len(callee.Params))
		return c.havocResult(resT, reach, st)
	}
	for i, p := range callee.Params {
		nf.vals[p] = args[i]
	}
	for i, fv := range callee.FreeVars {
		if i < len(bindings) {
			nf.vals[fv] = bindings[i]
		}
	}
	rets := c.runBody(nf, reach, st)
	if len(rets) == 0 {
		// callee never returns normally on this path
		c.assume(not(reach))
		return c.havocResult(resT, reach, st)
	}
	conds := make([]string, len(rets))
	sts := make([]*state, len(rets))
	for i, r := range rets {
		conds[i] = r.cond
		sts[i] = r.st
	}
	merged := c.mergeStates(conds, sts)
	st.h = merged.h
	// control continues only if the callee returned
	c.assume(implies(reach, or(conds...)))
	nres := len(rets[0].results)
	if nres == 0 {
		return val{}
	}
	out := make([]val, nres)
	for i := 0; i < nres; i++ {
		vs := make([]val, len(rets))
		for j, r := range rets {
			vs[j] = r.results[i]
		}
		var t types.Type
		if tup, ok := resT.(*types.Tuple); ok {
			t = tup.At(i).Type()
		} else {
			t = resT
		}
		if t == nil {
			t = callee.Signature.Results().At(i).Type()
		}
		out[i] = c.mergeVals(conds, vs, t, callee.Name())
	}
	if nres == 1 {
		return out[0]
	}
	return val{tup: out}
}

// ---------------------------------------------------------------- contracts at call sites

// paramNames returns the names binding a contract's parameters (receiver first) and results.
func contractNames(ct *spec.FuncContract, fn *ssa.Function, sig *types.Signature, invoke bool) (params []string, results []string) {
	if len(ct.Params) > 0 {
		for _, p := range ct.Params {
			params = append(params, p.Name)
		}
	} else if fn != nil {
		for _, p := range fn.Params {
			params = append(params, p.Name())
		}
	} else {
		if invoke || sig.Recv() != nil {
			params = append(params, "self")
		}
		for i := 0; i < sig.Params().Len(); i++ {
			n := sig.Params().At(i).Name()
			if n == "" || n == "_" {
				n = fmt.Sprintf("arg%d", i)
			}
			params = append(params, n)
		}
	}
	if len(ct.Results) > 0 {
		for _, r := range ct.Results {
			results = append(results, r.Name)
		}
	} else {
		rs := sig.Results()
		for i := 0; i < rs.Len(); i++ {
			n := rs.At(i).Name()
			if n == "" || n == "_" {
				if rs.Len() == 1 {
					n = "result"
				} else {
					n = fmt.Sprintf("result%d", i)
				}
			}
			results = append(results, n)
		}
	}
	return
}

func resultAlias(i, n int) string {
	if n == 1 {
		return "result"
	}
	return fmt.Sprintf("result%d", i)
}

func (c *fctx) paramTypes(fn *ssa.Function, sig *types.Signature, invoke bool, recvT types.Type) []types.Type {
	var ts []types.Type
	if fn != nil {
		for _, p := range fn.Params {
			ts = append(ts, p.Type())
		}
		return ts
	}
	if invoke {
		ts = append(ts, recvT)
	}
	for i := 0; i < sig.Params().Len(); i++ {
		ts = append(ts, sig.Params().At(i).Type())
	}
	return ts
}

func (c *fctx) specEnv(ct *spec.FuncContract, pkg *types.Package, st, old *state) *env {
	e := &env{c: c, vars: map[string]sval{}, st: st, old: old, file: c.P.FileOfPkg[ct.File]}
	e.pkg = pkg
	if e.pkg == nil && e.file != nil {
		e.pkg = c.P.TypesPkgs[e.file.Pkg]
	}
	return e
}

func (c *fctx) applyContract(fr *frame, key string, ct *spec.FuncContract, fn *ssa.Function, sig *types.Signature, invoke bool, args []val, st *state, reach string, pos token.Pos, resT types.Type) val {
	c.used[contractLabel(ct, key)] = true
	c.ghostFrameCheck(ct, key)
	var recvT types.Type
	if invoke {
		recvT = types.NewInterfaceType(nil, nil)
	}
	pnames, rnames := contractNames(ct, fn, sig, invoke)
	ptypes := c.paramTypes(fn, sig, invoke, recvT)
	if len(pnames) != len(args) {
		c.errorf("%s: contract %s binds %d parameters, call has %d arguments", fr.fn, key, len(pnames), len(args))
		return c.havocResult(resT, reach, st)
	}
	var pkg *types.Package
	if fn != nil && fn.Pkg != nil {
		pkg = fn.Pkg.Pkg
	}
	pre := st.clone()
	e := c.specEnv(ct, pkg, st, pre)
	for i, n := range pnames {
		var gt types.Type
		if i < len(ptypes) {
			gt = ptypes[i]
		}
		srt := "Iface"
		if gt != nil {
			srt = c.S.SortOf(gt)
		}
		e.vars[n] = sval{t: c.termOf(args[i], "argument "+n), sort: srt, gt: gt}
	}
	short := shortFn(key)
	for _, gv := range ct.Given {
		c.assume(implies(reach, e.tr(gv.E).t))
		c.used["definition:"+shortFn(key)+": "+gv.Src] = true
	}
	for i, r := range ct.Requires {
		g := e.tr(r.E)
		lbl := fmt.Sprint(i)
		if r.Label != "" {
			lbl = r.Label
		}
		c.addObl(&Obligation{Name: fr.prefix + "call-requires:" + short + "#" + lbl + "@" + c.P.SrcLine(pos), Kind: "requires", Guard: reach, Goal: g.t, Pos: c.pos(pos), SrcLine: c.P.SrcLine(pos), Clause: r.Src})
	}
	// recursion: the measure must decrease (lexicographically) and be bounded below
	// recursion (direct, or mutual between functions of one package that both carry a measure of the same arity)
	sameGroup := fn != nil && c.fn != nil && fn != c.fn && fn.Pkg != nil && fn.Pkg == c.fn.Pkg && len(ct.Decr) > 0 && len(c.fnDecr0) == len(ct.Decr)
	if fn != nil && (fn == c.fn || sameGroup) && len(ct.Decr) > 0 && len(c.fnDecr0) == len(ct.Decr) && !c.noRecCheck {
		var now []string
		for _, d := range ct.Decr {
			now = append(now, e.tr(d).t)
		}
		var alts []string
		for i := range now {
			var cs []string
			for j := 0; j < i; j++ {
				cs = append(cs, fmt.Sprintf("(= %s %s)", now[j], c.fnDecr0[j]))
			}
			cs = append(cs, fmt.Sprintf("(< %s %s)", now[i], c.fnDecr0[i]), fmt.Sprintf("(>= %s 0)", c.fnDecr0[i]))
			alts = append(alts, and(cs...))
		}
		c.addObl(&Obligation{Name: fr.prefix + "recursion/decreases@" + c.P.SrcLine(pos), Kind: "decreases", Guard: reach, Goal: or(alts...), Pos: c.pos(pos), SrcLine: c.P.SrcLine(pos)})
	} else if fn != nil && fn == c.fn && len(ct.Decr) == 0 && ct.DecrAssumed {
		c.used["assumed: termination of the recursion of "+shortFn(fn.String())+" (decreases _)"] = true
	} else if fn != nil && fn == c.fn && len(ct.Decr) == 0 && !c.noRecCheck {
		c.errorf("%s: recursive call without a decreases clause", fn)
	}
	// the callee calls some of its function-valued arguments (with arbitrary arguments)
	for _, inv := range ct.Invokes {
		for i, n := range pnames {
			if n != inv {
				continue
			}
			av := args[i]
			if av.clo == nil || len(av.clo.fn.Blocks) == 0 {
				c.used["assumed:calls through unknown function values are deterministic and effect-free"] = true
				continue
			}
			var cargs []val
			for _, prm := range av.clo.fn.Params {
				v := c.fresh("cb."+prm.Name(), c.S.SortOf(prm.Type()))
				c.assumeFacts(reach, v, prm.Type(), st)
				if _, isI := types.Unalias(prm.Type()).Underlying().(*types.Interface); isI {
					c.assume(implies(reach, fmt.Sprintf("(not (= %s nilI))", v)))
				}
				cargs = append(cargs, val{t: v})
				e.vars[fmt.Sprintf("cbarg%d", len(cargs)-1)] = sval{t: v, sort: c.S.SortOf(prm.Type()), gt: prm.Type()}
			}
			e.st = st
			for _, gv := range ct.CbGiven {
				c.assume(implies(reach, e.tr(gv.E).t))
			}
			c.inline(fr, av.clo.fn, cargs, av.clo.bindings, st, reach, pos, av.clo.fn.Signature.Results(), c.P.ContractFor(av.clo.fn))
		}
	}
	// the callee calls a method of one of its interface-valued arguments any number of times
	var streams []*streamSite
	for _, rp := range ct.Repeats {
		if ss := c.streamSite(fr, ct, key, rp, pnames, args, st, reach, pos); ss != nil {
			streams = append(streams, ss)
		}
	}
	// frame: havoc what the callee may assign
	preAlloc := c.region(st, "alloc", "(Array Int Bool)")
	c.havocAssigns(fr, ct, e, st, reach, pos)
	for _, ss := range streams {
		c.streamHavoc(fr, ss, st, reach, pos)
	}
	// the callee may allocate
	c.loopCheck(fr, "alloc")
	na := c.fresh("H.alloc", "(Array Int Bool)")
	st.h["alloc"] = na
	c.regions["alloc"] = "(Array Int Bool)"
	c.assume(fmt.Sprintf("(forall ((x!a Int)) (! (=> (select %s x!a) (select %s x!a)) :pattern ((select %s x!a))))", preAlloc, na, preAlloc))
	// derived fact, stated directly (memory is never freed): what was allocated on entry still is
	c.assume(fmt.Sprintf("(forall ((x!a Int)) (! (=> (select alloc0 x!a) (select %s x!a)) :pattern ((select %s x!a))))", na, na))
	e.st = st
	e.preAlloc = preAlloc
	// results
	var results []val
	rs := sig.Results()
	for i := 0; i < rs.Len(); i++ {
		t := rs.At(i).Type()
		srt := c.S.SortOf(t)
		v := c.fresh("r."+short, srt)
		c.assumeFacts(reach, v, t, st)
		results = append(results, val{t: v})
		if i < len(rnames) {
			e.vars[rnames[i]] = sval{t: v, sort: srt, gt: t}
		}
		// positional aliases are always available (named results keep their names too)
		if _, taken := e.vars[resultAlias(i, rs.Len())]; !taken {
			e.vars[resultAlias(i, rs.Len())] = sval{t: v, sort: srt, gt: t}
		}
	}
	// the callee's internal yield-error counter is not observable by the caller
	if _, ok := e.vars["yielderrs"]; !ok {
		e.vars["yielderrs"] = sval{t: c.fresh("r.yielderrs", "Int"), sort: "Int", gt: types.Typ[types.Int]}
	}
	for _, en := range ct.Ensures {
		g := e.tr(en.E)
		if en.Quiet {
			c.saveQuiet(key, en.Label, implies(reach, g.t))
			continue
		}
		c.assume(implies(reach, g.t))
	}
	for _, en := range ct.Defines {
		g := e.tr(en.E)
		c.assume(implies(reach, g.t))
	}
	for _, ss := range streams {
		c.streamAssume(ss, st, pre, reach)
	}
	for _, en := range ct.Assumes {
		g := e.tr(en.E)
		c.used["assumed-postcondition:"+key+": "+en.Src] = true
		if en.Quiet {
			c.saveQuiet(key, en.Label, implies(reach, g.t))
			continue
		}
		c.assume(implies(reach, g.t))
	}
	switch len(results) {
	case 0:
		return val{}
	case 1:
		return results[0]
	}
	return val{tup: results}
}

// saveQuiet keeps a quiet post-condition of a call for the caller's clauses that ask for it as "<function name>.<label>".
func (c *fctx) saveQuiet(key, label, fact string) {
	name := key
	if i := strings.LastIndexAny(name, "./)"); i >= 0 {
		name = name[i+1:]
	}
	if c.quiet == nil {
		c.quiet = map[string][]string{}
	}
	c.quiet[name+"."+label] = append(c.quiet[name+"."+label], fact)
}

func contractLabel(ct *spec.FuncContract, key string) string {
	if ct.Extern {
		return "assumed-contract:" + key
	}
	if ct.Trusted {
		return "trusted-contract:" + key
	}
	return "contract:" + key
}

func shortFn(key string) string {
	s := strings.ReplaceAll(key, ModulePath+"/", "")
	s = strings.ReplaceAll(s, "github.com/", "")
	return s
}

// havocAssigns havocs the heap regions a callee may write, according to its assigns clause.
func (c *fctx) havocAssigns(fr *frame, ct *spec.FuncContract, e *env, st *state, reach string, pos token.Pos) {
	as := ct.Assigns
	if as == nil || as.Nothing {
		return
	}
	if as.Any {
		var ks []string
		for k := range c.regions {
			ks = append(ks, k)
		}
		sort.Strings(ks)
		for _, k := range ks {
			if strings.HasPrefix(k, "G:") && c.used["global-fact:"+k] {
				continue
			}
			c.noteWrite(k, "", reach, pos, fr, st)
			st.h[k] = c.fresh("Hc."+k, c.regions[k])
		}
		return
	}
	for _, loc := range as.Locs {
		for _, w := range c.locWrites(e, loc) {
			c.noteWrite(w.key, w.root, reach, pos, fr, st)
			old := c.region(st, w.key, w.sort)
			if w.root == "" {
				st.h[w.key] = c.fresh("Hc."+w.key, w.sort)
				continue
			}
			// only the cells rooted at w.root change
			inner := strings.TrimSuffix(strings.TrimPrefix(w.sort, "(Array Int "), ")")
			locMu.RLock()
			in, ok := locInner[w.key]
			locMu.RUnlock()
			if ok {
				inner = in
			}
			nv := c.fresh("hv", inner)
			c.setRegion(st, w.key, w.sort, fmt.Sprintf("(store %s %s %s)", old, w.root, nv))
		}
	}
}

type locWrite struct{ key, sort, root string }

// locInner: sort of one cell for ghost-state regions (regions not indexed by Int), by key.
// (package-level, shared by the programs the selftest verifies in parallel: guarded by locMu)
var locInner = map[string]string{}
var locMu sync.RWMutex

// locWrites interprets one assigns location: a pointer (all fields of the pointee), a slice
// (its backing array), a map (its entries), or x.f (one field).
func (c *fctx) locWrites(e *env, loc spec.Expr) []locWrite {
	if sel, ok := loc.(*spec.Select); ok {
		base := e.tr(sel.X)
		if base.gt != nil {
			if pt, ok := types.Unalias(base.gt).Underlying().(*types.Pointer); ok {
				if si := c.S.StructOf(pt.Elem()); si != nil {
					for _, f := range si.Fields {
						if f.Name == sel.Sel {
							out := []locWrite{{"F:" + si.Name + "." + f.Name, "(Array Int " + f.Sort + ")", base.t}}
							// x.f of map or slice type also stands for the contents it currently refers to
							cur := e.tr(loc)
							switch ft := types.Unalias(f.T).Underlying().(type) {
							case *types.Map:
								out = append(out, locWrite{c.mapHasKey(ft), c.mapHasSort(ft), cur.t}, locWrite{c.mapValKey(ft), c.mapValSort(ft), cur.t}, locWrite{c.mapLenKey(ft), "(Array Int Int)", cur.t})
							case *types.Slice:
								out = append(out, locWrite{c.elemKey(ft.Elem()), c.elemSort(c.S.SortOf(ft.Elem())), "(sbase " + cur.t + ")"})
							}
							return out
						}
					}
				}
			}
		}
	}
	if cl, ok := loc.(*spec.Call); ok {
		if id, ok := cl.Fun.(*spec.Ident); ok {
			if pf := c.P.Pures[id.Name]; pf != nil && pf.State && len(cl.Args) == 1 {
				file := c.P.FileOfPkg[pf.File]
				_, ps, err1 := c.P.ResolveType(pf.Params[0].Type, file, c.S)
				_, rs, err2 := c.P.ResolveType(pf.Result, file, c.S)
				if pf.Result == "bool" {
					rs, err2 = "Bool", nil
				}
				if err1 != nil || err2 != nil {
					c.errorf("assigns: cannot resolve ghost state %s", id.Name)
					return nil
				}
				a := e.tr(cl.Args[0])
				locMu.Lock()
				locInner["X:"+pf.Name] = rs
				locMu.Unlock()
				return []locWrite{{"X:" + pf.Name, "(Array " + ps + " " + rs + ")", a.t}}
			}
		}
	}
	if id, ok := loc.(*spec.Ident); ok && strings.HasPrefix(id.Name, "region_") {
		key := strings.TrimPrefix(id.Name, "region_")
		return []locWrite{{key, c.regions[key], ""}}
	}
	v := e.tr(loc)
	if v.gt == nil {
		c.errorf("assigns: untyped location %s", loc)
		return nil
	}
	switch t := types.Unalias(v.gt).Underlying().(type) {
	case *types.Pointer:
		if si := c.S.StructOf(t.Elem()); si != nil {
			var out []locWrite
			for _, f := range si.Fields {
				out = append(out, locWrite{"F:" + si.Name + "." + f.Name, "(Array Int " + f.Sort + ")", v.t})
			}
			return out
		}
		if ar, ok := types.Unalias(t.Elem()).Underlying().(*types.Array); ok {
			es := c.S.SortOf(ar.Elem())
			return []locWrite{{c.elemKey(ar.Elem()), c.elemSort(es), v.t}}
		}
		srt := c.S.SortOf(t.Elem())
		return []locWrite{{c.cellKey(t.Elem()), "(Array Int " + srt + ")", v.t}}
	case *types.Slice:
		es := c.S.SortOf(t.Elem())
		return []locWrite{{c.elemKey(t.Elem()), c.elemSort(es), "(sbase " + v.t + ")"}}
	case *types.Map:
		return []locWrite{
			{c.mapHasKey(t), c.mapHasSort(t), v.t},
			{c.mapValKey(t), c.mapValSort(t), v.t},
			{c.mapLenKey(t), "(Array Int Int)", v.t},
		}
	}
	c.errorf("assigns: unsupported location %s of type %s", loc, v.gt)
	return nil
}

// ---------------------------------------------------------------- builtins

func (c *fctx) builtin(fr *frame, b *ssa.Builtin, cm *ssa.CallCommon, reach string, st *state, pos token.Pos, resT types.Type) val {
	arg := func(i int) val { return c.operand(fr, cm.Args[i]) }
	switch b.Name() {
	case "len":
		v := arg(0)
		switch t := types.Unalias(cm.Args[0].Type()).Underlying().(type) {
		case *types.Basic:
			return val{t: "(len " + v.t + ")"}
		case *types.Slice:
			return val{t: "(slen " + v.t + ")"}
		case *types.Map:
			r := c.define("maplen", "Int", fmt.Sprintf("(ite (= %s 0) 0 (select %s %s))", v.t, c.region(st, c.mapLenKey(t), "(Array Int Int)"), v.t))
			c.assume(fmt.Sprintf("(>= %s 0)", r))
			return val{t: r}
		case *types.Array:
			return val{t: fmt.Sprint(t.Len())}
		case *types.Pointer:
			if ar, ok := types.Unalias(t.Elem()).Underlying().(*types.Array); ok {
				return val{t: fmt.Sprint(ar.Len())}
			}
		}
	case "cap":
		v := arg(0)
		if _, ok := types.Unalias(cm.Args[0].Type()).Underlying().(*types.Slice); ok {
			return val{t: "(scap " + v.t + ")"}
		}
	case "append":
		return c.doAppend(fr, cm, reach, st, pos)
	case "copy":
		return c.doCopy(fr, cm, reach, st, pos)
	case "delete":
		mt := types.Unalias(cm.Args[0].Type()).Underlying().(*types.Map)
		m, k := arg(0).t, c.termOf(arg(1), "map key")
		hk, hs := c.mapHasKey(mt), c.mapHasSort(mt)
		lk := c.mapLenKey(mt)
		has := c.region(st, hk, hs)
		ml := c.region(st, lk, "(Array Int Int)")
		c.noteWrite(hk, m, reach, pos, fr, st)
		c.noteWrite(lk, m, reach, pos, fr, st)
		c.setRegion(st, lk, "(Array Int Int)", fmt.Sprintf("(ite (and (not (= %s 0)) (select (select %s %s) %s)) (store %s %s (- (select %s %s) 1)) %s)", m, has, m, k, ml, m, ml, m, ml))
		c.setRegion(st, hk, hs, fmt.Sprintf("(ite (= %s 0) %s (store %s %s (store (select %s %s) %s false)))", m, has, has, m, has, m, k))
		return val{}
	case "min", "max":
		a, bb := arg(0).t, arg(1).t
		op := "<="
		if b.Name() == "max" {
			op = ">="
		}
		return val{t: fmt.Sprintf("(ite (%s %s %s) %s %s)", op, a, bb, a, bb)}
	case "print", "println":
		return val{}
	case "recover":
		c.used["abstracted:recover() returns an arbitrary value (panics inside the protected region are not modelled)"] = true
		return val{t: c.fresh("recovered", "Iface")}
	}
	c.errorf("%s: unsupported builtin %s", fr.fn, b.Name())
	return c.havocResult(resT, reach, st)
}

func (c *fctx) doAppend(fr *frame, cm *ssa.CallCommon, reach string, st *state, pos token.Pos) val {
	s := c.operand(fr, cm.Args[0]).t
	src := c.operand(fr, cm.Args[1])
	st0 := types.Unalias(cm.Args[0].Type()).Underlying().(*types.Slice)
	et := st0.Elem()
	es := c.S.SortOf(et)
	key, srt := c.elemKey(et), c.elemSort(es)
	h := c.region(st, key, srt)
	var n string
	var srcAt func(j string) string
	if isString(cm.Args[1].Type()) {
		n = "(len " + src.t + ")"
		srcAt = func(j string) string { return fmt.Sprintf("(at %s %s)", src.t, j) }
	} else {
		n = "(slen " + src.t + ")"
		srcAt = func(j string) string {
			return fmt.Sprintf("(select (select %s (sbase %s)) (idx (soff %s) %s))", h, src.t, src.t, j)
		}
	}
	nlen := c.define("aplen", "Int", fmt.Sprintf("(+ (slen %s) %s)", s, n))
	fits := c.define("apfits", "Bool", fmt.Sprintf("(<= %s (scap %s))", nlen, s))
	fresh := c.allocate(st, reach, "append")
	c.loopCheck(fr, "alloc")
	ncap := c.fresh("apcap", "Int")
	c.assume(fmt.Sprintf("(>= %s %s)", ncap, nlen))
	res := c.define("ap", "Slice", fmt.Sprintf("(ite %s (mkslice (sbase %s) (soff %s) %s (scap %s)) (mkslice %s 0 %s %s))", fits, s, s, nlen, s, fresh, nlen, ncap))
	// the in-place case writes the existing backing array
	c.noteWriteCond(key, "(sbase "+s+")", and(reach, fits, fmt.Sprintf("(> %s 0)", n)), pos, fr, st)
	c.loopCheck(fr, key)
	arr := c.fresh("aparr", "(Array Int "+es+")")
	// old elements are kept, appended elements follow (one axiom, triggered on the result element)
	c.assume(fmt.Sprintf("(forall ((j!p Int)) (! (=> (and (<= 0 j!p) (< j!p %s)) (= (select %s (idx (soff %s) j!p)) (ite (< j!p (slen %s)) (select (select %s (sbase %s)) (idx (soff %s) j!p)) %s))) :pattern ((select %s (idx (soff %s) j!p)))))", nlen, arr, res, s, h, s, s, srcAt("(- j!p (slen "+s+"))"), arr, res))
	// appended elements, triggered on the source element
	c.assume(fmt.Sprintf("(forall ((j!p Int)) (! (=> (and (<= 0 j!p) (< j!p %s)) (= (select %s (idx (soff %s) (+ (slen %s) j!p))) %s)) :pattern (%s)))", n, arr, res, s, srcAt("j!p"), srcAt("j!p")))
	// in place: everything outside the appended window is unchanged
	c.assume(fmt.Sprintf("(=> %s (forall ((x!p Int)) (! (=> (or (< x!p (+ (soff %s) (slen %s))) (>= x!p (+ (soff %s) %s))) (= (select %s x!p) (select (select %s (sbase %s)) x!p))) :pattern ((select %s x!p)))))", fits, s, s, s, nlen, arr, h, s, arr))
	// byte slices: the bytes of the result are the bytes of the slice followed by the appended bytes
	// (true by construction of arr; stated so that no extensionality argument is needed)
	if eb, _ := types.Unalias(et).Underlying().(*types.Basic); eb != nil && eb.Kind() == types.Uint8 {
		var srcStr string
		if isString(cm.Args[1].Type()) {
			srcStr = src.t
		} else {
			srcStr = fmt.Sprintf("(bytesToStr (select %s (sbase %s)) (soff %s) (slen %s))", h, src.t, src.t, src.t)
		}
		c.assume(fmt.Sprintf("(= (bytesToStr %s (soff %s) %s) (strcat (bytesToStr (select %s (sbase %s)) (soff %s) (slen %s)) %s))", arr, res, nlen, h, s, s, s, srcStr))
	}
	c.setRegion(st, key, srt, fmt.Sprintf("(store %s (sbase %s) %s)", h, res, arr))
	return val{t: res}
}

func (c *fctx) noteWriteCond(key, root, guard string, pos token.Pos, fr *frame, st *state) {
	c.noteWrite(key, root, guard, pos, fr, st)
}

func (c *fctx) doCopy(fr *frame, cm *ssa.CallCommon, reach string, st *state, pos token.Pos) val {
	dst := c.operand(fr, cm.Args[0]).t
	src := c.operand(fr, cm.Args[1])
	et := types.Unalias(cm.Args[0].Type()).Underlying().(*types.Slice).Elem()
	es := c.S.SortOf(et)
	key, srt := c.elemKey(et), c.elemSort(es)
	h := c.region(st, key, srt)
	var n string
	var srcAt func(j string) string
	if isString(cm.Args[1].Type()) {
		n = "(len " + src.t + ")"
		srcAt = func(j string) string { return fmt.Sprintf("(at %s %s)", src.t, j) }
	} else {
		n = "(slen " + src.t + ")"
		srcAt = func(j string) string {
			return fmt.Sprintf("(select (select %s (sbase %s)) (idx (soff %s) %s))", h, src.t, src.t, j)
		}
	}
	cnt := c.define("cpn", "Int", fmt.Sprintf("(ite (<= (slen %s) %s) (slen %s) %s)", dst, n, dst, n))
	c.noteWrite(key, "(sbase "+dst+")", and(reach, fmt.Sprintf("(> %s 0)", cnt)), pos, fr, st)
	arr := c.fresh("cparr", "(Array Int "+es+")")
	c.assume(fmt.Sprintf("(forall ((j!p Int)) (! (=> (and (<= 0 j!p) (< j!p %s)) (= (select %s (idx (soff %s) j!p)) %s)) :pattern ((select %s (idx (soff %s) j!p)))))", cnt, arr, dst, srcAt("j!p"), arr, dst))
	c.assume(fmt.Sprintf("(forall ((x!p Int)) (! (=> (or (< x!p (soff %s)) (>= x!p (+ (soff %s) %s))) (= (select %s x!p) (select (select %s (sbase %s)) x!p))) :pattern ((select %s x!p))))", dst, dst, cnt, arr, h, dst, arr))
	// byte slices: the copied window of the destination reads back as the first cnt bytes of the source (by construction)
	if eb, _ := types.Unalias(et).Underlying().(*types.Basic); eb != nil && eb.Kind() == types.Uint8 {
		var srcStr string
		if isString(cm.Args[1].Type()) {
			srcStr = fmt.Sprintf("(strsub %s 0 %s)", src.t, cnt)
		} else {
			srcStr = fmt.Sprintf("(bytesToStr (select %s (sbase %s)) (soff %s) %s)", h, src.t, src.t, cnt)
		}
		c.assume(fmt.Sprintf("(= (bytesToStr %s (soff %s) %s) %s)", arr, dst, cnt, srcStr))
	}
	c.setRegion(st, key, srt, fmt.Sprintf("(ite (= (sbase %s) 0) %s (store %s (sbase %s) %s))", dst, h, h, dst, arr))
	return val{t: cnt}
}


// ---------------------------------------------------------------- stream summaries (repeats / stream / implements)

// streamSite: at a call of an extern that `repeats x.M`, the argument x was made from a value of an in-repo type
// whose method M carries `stream` invariants.
type streamSite struct {
	m    *ssa.Function
	mct  *spec.FuncContract // contract of the in-repo method
	ict  *spec.FuncContract // interface-method contract it implements (may be nil)
	args []val              // receiver, then fresh parameters
	self val                // the interface value
	menv *env
	ienv *env
}

// methodOf finds the method named name of the dynamic type t (in-repo types only).
func (c *fctx) methodOf(t types.Type, name string) *ssa.Function {
	ms := c.P.SSA.MethodSets.MethodSet(t)
	for i := 0; i < ms.Len(); i++ {
		sel := ms.At(i)
		if sel.Obj().Name() == name {
			f := c.P.SSA.MethodValue(sel)
			if f != nil && f.Pkg != nil && strings.HasPrefix(f.Pkg.Pkg.Path(), ModulePath) && len(f.Blocks) > 0 {
				return f
			}
			return nil
		}
	}
	return nil
}

// freshParams returns fresh symbolic values for the non-receiver parameters of m (buffers owned by the caller of m:
// slices are backed by memory that is not allocated in the current state).
func (c *fctx) freshParams(m *ssa.Function, st *state, reach string) []val {
	var out []val
	for _, prm := range m.Params[1:] {
		if _, isSl := types.Unalias(prm.Type()).Underlying().(*types.Slice); isSl {
			// a buffer of the caller's own: freshly allocated, any length
			base := c.allocate(st, reach, "buf")
			n := c.fresh("sp.len", "Int")
			c.assume(fmt.Sprintf("(and (<= 0 %s) (<= %s 4611686018427387904))", n, n))
			out = append(out, val{t: fmt.Sprintf("(mkslice %s 0 %s %s)", base, n, n)})
			continue
		}
		v := c.fresh("sp."+prm.Name(), c.S.SortOf(prm.Type()))
		c.assumeFacts(reach, v, prm.Type(), st)
		out = append(out, val{t: v})
	}
	return out
}

func (c *fctx) bindEnv(ct *spec.FuncContract, fn *ssa.Function, sig *types.Signature, invoke bool, args []val, st, old *state) *env {
	var pkg *types.Package
	if fn != nil && fn.Pkg != nil {
		pkg = fn.Pkg.Pkg
	}
	var recvT types.Type
	if invoke {
		recvT = types.NewInterfaceType(nil, nil)
	}
	pnames, _ := contractNames(ct, fn, sig, invoke)
	ptypes := c.paramTypes(fn, sig, invoke, recvT)
	e := c.specEnv(ct, pkg, st, old)
	for i, n := range pnames {
		if i >= len(args) {
			break
		}
		var gt types.Type
		if i < len(ptypes) {
			gt = ptypes[i]
		}
		srt := "Iface"
		if gt != nil {
			srt = c.S.SortOf(gt)
		}
		e.vars[n] = sval{t: c.termOf(args[i], "argument "+n), sort: srt, gt: gt}
	}
	return e
}

func (c *fctx) streamSite(fr *frame, ct *spec.FuncContract, key, rp string, pnames []string, args []val, st *state, reach string, pos token.Pos) *streamSite {
	parts := strings.SplitN(rp, ".", 2)
	if len(parts) != 2 {
		c.errorf("%s: repeats clause %q: expected param.Method", key, rp)
		return nil
	}
	idx := -1
	for i, n := range pnames {
		if n == parts[0] {
			idx = i
		}
	}
	if idx < 0 {
		c.errorf("%s: repeats clause %q names no parameter", key, rp)
		return nil
	}
	av := args[idx]
	if av.dynT == nil || av.dynV == nil {
		// unknown dynamic type: the callee's contract speaks about the ghost history of the interface value only
		c.used["assumed: an interface value of unknown dynamic type passed to "+shortFn(key)+" is observed by the caller only through its ghost history state"] = true
		return nil
	}
	m := c.methodOf(av.dynT, parts[1])
	if m == nil {
		return nil // dependency type (bytes.Reader, bufio.Reader, ...): ghost history of the interface value only
	}
	mct := c.P.ContractFor(m)
	if mct == nil || len(mct.Stream) == 0 {
		c.errorf("%s: %s is called repeatedly by %s but has no stream invariant", fr.fn, m, shortFn(key))
		return nil
	}
	ss := &streamSite{m: m, mct: mct, self: av}
	if mct.Implements != "" {
		ss.ict = c.P.Contracts[mct.Implements]
	}
	ss.args = append([]val{*av.dynV}, c.freshParams(m, st, reach)...)
	pre := st.clone()
	ss.menv = c.bindEnv(mct, m, m.Signature, false, ss.args, st, pre)
	c.used[contractLabel(mct, m.String())+" (stream invariant)"] = true
	// the method's precondition must hold when the callee starts (its stability across calls is an obligation of the method)
	short := shortFn(m.String())
	for i, r := range mct.Requires {
		g := ss.menv.tr(r.E)
		lbl := fmt.Sprint(i)
		if r.Label != "" {
			lbl = r.Label
		}
		c.addObl(&Obligation{Name: fr.prefix + "call-requires:" + short + "#" + lbl + "(repeated)@" + c.P.SrcLine(pos), Kind: "requires", Guard: reach, Goal: g.t, Pos: c.pos(pos), SrcLine: c.P.SrcLine(pos), Clause: r.Src})
	}
	if ss.ict != nil {
		iargs := append([]val{av}, ss.args[1:]...)
		sig := m.Signature
		ss.ienv = c.bindEnv(ss.ict, nil, sig, true, iargs, st, pre)
	}
	return ss
}

func (c *fctx) streamHavoc(fr *frame, ss *streamSite, st *state, reach string, pos token.Pos) {
	ss.menv.st = st
	c.havocAssigns(fr, ss.mct, ss.menv, st, reach, pos)
	if ss.ienv != nil {
		ss.ienv.st = st
		c.havocAssigns(fr, c.ghostOnly(ss.ict), ss.ienv, st, reach, pos)
	}
}

func (c *fctx) streamAssume(ss *streamSite, st, pre *state, reach string) {
	ss.menv.st, ss.menv.old = st, pre
	for _, cl := range ss.mct.Stream {
		g := ss.menv.tr(cl.E)
		c.assume(implies(reach, g.t))
	}
}

// verifyStream generates, for a method with `implements` / `stream` clauses:
//   refines#i@retK   every plain post-condition of the interface-method contract holds at every return
//   stream#l/base    each stream invariant holds reflexively
//   stream#l/step    each stream invariant is preserved by one more call (from any state reachable by calls)
//   stream>call-requires...  the method's precondition is stable under the invariants
func (c *fctx) verifyStream(fr *frame, ct *spec.FuncContract, e *env, entry *state, rets []retInfo) {
	fn := c.fn
	var ict *spec.FuncContract
	if ct.Implements != "" {
		ict = c.P.Contracts[ct.Implements]
		if ict == nil {
			c.errorf("%s: implements %s: no such interface-method contract", fn, ct.Implements)
			return
		}
	}
	if ict == nil && len(ct.Stream) > 0 {
		c.errorf("%s: stream invariants need an implements clause", fn)
		return
	}
	if ict == nil {
		return
	}
	recv := fr.vals[fn.Params[0]]
	b := c.S.Box(fn.Params[0].Type())
	self := val{t: fmt.Sprintf("(%s %s)", b.Box, c.termOf(recv, "receiver"))}
	// (a) refinement of the ghost-free interface post-conditions
	for ri, r := range rets {
		iargs := []val{self}
		for _, prm := range fn.Params[1:] {
			iargs = append(iargs, fr.vals[prm])
		}
		ie := c.bindEnv(ict, nil, fn.Signature, true, iargs, r.st, entry)
		_, rnames := contractNames(ict, nil, fn.Signature, true)
		rs := fn.Signature.Results()
		for i := 0; i < rs.Len() && i < len(r.results) && i < len(rnames); i++ {
			t := rs.At(i).Type()
			ie.vars[rnames[i]] = sval{t: c.termOf(r.results[i], "result"), sort: c.S.SortOf(t), gt: t}
		}
		for i, en := range ict.Ensures {
			g := ie.tr(en.E)
			lbl := fmt.Sprint(i)
			if en.Label != "" {
				lbl = en.Label
			}
			c.addObl(&Obligation{Name: fmt.Sprintf("refines#%s@ret%d", lbl, ri), Kind: "ensures", Guard: r.cond, Goal: g.t, Clause: en.Src, Pos: c.pos(r.pos), SrcLine: c.P.SrcLine(r.pos), Tags: streamTags(ct)})
		}
	}
	if len(ct.Stream) == 0 {
		return
	}
	c.used["assumed: ghost history state of an interface value evolves as the `defines` clauses of "+ct.Implements+" say (history variables)"] = true
	saved := c.modeNoAssigns
	c.modeNoAssigns, c.noRecCheck = true, true
	defer func() { c.modeNoAssigns, c.noRecCheck = saved, false }()
	sfr := &frame{fn: fn, vals: fr.vals, prefix: "stream>", contract: ct}
	// base
	be := *e
	be.st, be.old = entry, entry
	for i, cl := range ct.Stream {
		g := be.tr(cl.E)
		c.addObl(&Obligation{Name: "stream#" + clauseLabel(cl, i) + "/base", Kind: "invariant-established", Guard: "true", Goal: g.t, Clause: cl.Src, Tags: cl.Tags})
	}
	// s1: any state reached from entry by calls of this method
	s1 := entry.clone()
	args0 := []val{recv}
	for _, prm := range fn.Params[1:] {
		args0 = append(args0, fr.vals[prm])
	}
	iargs0 := append([]val{self}, args0[1:]...)
	me := c.bindEnv(ct, fn, fn.Signature, false, args0, s1, entry)
	c.havocAssigns(sfr, ct, me, s1, "true", fn.Pos())
	ie := c.bindEnv(ict, nil, fn.Signature, true, iargs0, s1, entry)
	c.havocAssigns(sfr, c.ghostOnly(ict), ie, s1, "true", fn.Pos())
	me.st, me.old = s1, entry
	for _, cl := range ct.Stream {
		c.assume(me.tr(cl.E).t)
	}
	// one more call, with a buffer of the caller's
	args1 := append([]val{recv}, c.freshParams(fn, s1, "true")...)
	s1pre := s1.clone()
	res := c.applyContract(sfr, fn.String(), ct, fn, fn.Signature, false, args1, s1, "true", fn.Pos(), fn.Signature.Results())
	// the ghost history of the interface value, as defined by the interface-method contract
	iargs1 := append([]val{self}, args1[1:]...)
	ie2 := c.bindEnv(ict, nil, fn.Signature, true, iargs1, s1, s1pre)
	c.havocAssigns(sfr, c.ghostOnly(ict), ie2, s1, "true", fn.Pos())
	ie2.st = s1
	_, irn := contractNames(ict, nil, fn.Signature, true)
	rs := fn.Signature.Results()
	var rvals []val
	if rs.Len() == 1 {
		rvals = []val{res}
	} else {
		rvals = res.tup
	}
	for i := 0; i < rs.Len() && i < len(rvals) && i < len(irn); i++ {
		t := rs.At(i).Type()
		ie2.vars[irn[i]] = sval{t: c.termOf(rvals[i], "result"), sort: c.S.SortOf(t), gt: t}
	}
	for _, en := range ict.Ensures {
		c.assume(ie2.tr(en.E).t)
	}
	for _, en := range ict.Defines {
		c.assume(ie2.tr(en.E).t)
	}
	c.addObl(&Obligation{Name: "stream/vacuity:step-reachable", Kind: "vacuity", Guard: "true", Goal: "false", ExpectSat: true})
	se := c.bindEnv(ct, fn, fn.Signature, false, args0, s1, entry)
	for i, cl := range ct.Stream {
		g := se.tr(cl.E)
		c.addObl(&Obligation{Name: "stream#" + clauseLabel(cl, i) + "/step", Kind: "invariant-preserved", Guard: "true", Goal: g.t, Clause: cl.Src, Tags: cl.Tags})
	}
}

func clauseLabel(cl spec.Clause, i int) string {
	if cl.Label != "" {
		return cl.Label
	}
	return fmt.Sprint(i)
}

func streamTags(ct *spec.FuncContract) []string {
	seen := map[string]bool{}
	var out []string
	for _, cl := range ct.Stream {
		for _, t := range cl.Tags {
			if !seen[t] {
				seen[t] = true
				out = append(out, t)
			}
		}
	}
	return out
}

// ghostOnly restricts a contract's frame to its ghost-state locations.
func (c *fctx) ghostOnly(ct *spec.FuncContract) *spec.FuncContract {
	n := *ct
	if ct.Assigns == nil || ct.Assigns.Any || ct.Assigns.Nothing {
		return &n
	}
	as := &spec.AssignsSpec{Tags: ct.Assigns.Tags}
	for _, loc := range ct.Assigns.Locs {
		if cl, ok := loc.(*spec.Call); ok {
			if id, ok := cl.Fun.(*spec.Ident); ok {
				if pf := c.P.Pures[id.Name]; pf != nil && pf.State {
					as.Locs = append(as.Locs, loc)
				}
			}
		}
	}
	if len(as.Locs) == 0 {
		as.Nothing = true
	}
	n.Assigns = as
	return &n
}


// ---------------------------------------------------------------- range-over-func

// rangeFunc models `for x, y := range it { body }` as compiled by go/ssa: the call it(yield), where yield is the
// synthesized closure holding the loop body.  The iterator is treated as unknown: it calls yield any number of times
// with arbitrary arguments and stops after yield returned false; it has no other effect on the caller's state.
// Like every loop it needs invariants (`loop N: invariant ...`, N counting all loops in source order):
//   established before the call; preserved by every yield that returns true; the state afterwards is either a state
//   satisfying the invariants (the iterator finished) or the state in which one more yield returned false.
func (c *fctx) rangeFunc(fr *frame, in ssa.CallInstruction, mc *ssa.MakeClosure, reach string, st *state) {
	yf := mc.Fn.(*ssa.Function)
	call := in.(ssa.Instruction)
	c.used["assumed: iterators (iter.Seq / iter.Seq2 values) call yield with arbitrary arguments, stop after it returned false, terminate, and have no other effect on the caller's state"] = true
	ord := rangeFuncOrdinal(fr.fn, call)
	li := &loopInfo{header: call.Block(), blocks: map[*ssa.BasicBlock]bool{}, ordinal: ord, rfCall: call}
	if fr.contract != nil {
		li.spec = fr.contract.Loops[ord]
	}
	if li.spec == nil {
		c.errorf("%s: range-over-func loop %d (at %s) has no invariant/contract", fr.prefix+fr.fn.String(), ord, c.pos(call.Pos()))
		li.spec = &spec.LoopSpec{}
	}
	savedAt := fr.rfAt
	fr.rfAt = call
	defer func() { fr.rfAt = savedAt }()
	var bindings []val
	for _, b := range mc.Bindings {
		bindings = append(bindings, c.operand(fr, b))
	}
	// ghost: yielderrs = number of yields so far whose last argument (of type error) was non-nil
	intT := types.Typ[types.Int]
	li.extra = map[string]sval{"yielderrs": {t: "0", sort: "Int", gt: intT}}
	// 1. invariants hold on entry
	c.checkInvariants(fr, li, reach, st, nil, "established")
	// 2. havoc everything the body may write (no frame refinement: the invariants must carry what is needed)
	w := &wsCtx{out: map[string]*wsEntry{}, li: nil, seen: map[*ssa.Function]bool{}}
	for _, b := range yf.Blocks {
		for _, ins := range b.Instrs {
			c.instrWrites(yf, ins, w, 0)
		}
	}
	if w.out["*"] != nil {
		c.errorf("%s: range-over-func loop %d calls a function that 'assigns anything' (unsupported inside loops)", fr.fn, ord)
	}
	var wk []string
	for k := range w.out {
		wk = append(wk, k)
	}
	sort.Strings(wk)
	preAlloc := c.region(st, "alloc", "(Array Int Bool)")
	for _, k := range wk {
		srt := c.regionSort(k)
		if srt == "" {
			continue
		}
		c.noteWrite(k, "", "false", call.Pos(), fr, st) // keeps enclosing loops' write-set cross-check informed
		st.h[k] = c.fresh("Hr."+k, srt)
	}
	if w.out["alloc"] != nil {
		na := c.region(st, "alloc", "(Array Int Bool)")
		c.assume(fmt.Sprintf("(forall ((x!a Int)) (! (=> (select %s x!a) (select %s x!a)) :pattern ((select %s x!a))))", preAlloc, na, preAlloc))
	}
	errs := c.fresh("rf.yielderrs", "Int")
	c.assume(fmt.Sprintf("(>= %s 0)", errs))
	li.extra["yielderrs"] = sval{t: errs, sort: "Int", gt: intT}
	c.assumeInvariants(fr, li, reach, st)
	// the jump variable is READY (0) whenever the iterator is about to call yield or has finished
	var jumpAddr *addr
	for i, fv := range yf.FreeVars {
		if strings.HasPrefix(fv.Name(), "jump$") && i < len(bindings) {
			jumpAddr = c.addrOfPointer(bindings[i], fv.Type())
		}
	}
	if jumpAddr != nil {
		c.assume(implies(reach, fmt.Sprintf("(= %s 0)", c.load(jumpAddr, st))))
	}
	// 3. one more call of yield, with arbitrary arguments
	done := c.fresh("rf.done", "Bool")
	body := st.clone()
	nf := &frame{fn: yf, vals: map[ssa.Value]val{}, prefix: fr.prefix + fmt.Sprintf("loop%d>", ord), parent: fr, depth: fr.depth + 1, contract: c.P.ContractFor(yf)}
	breach := and(reach, not(done))
	for _, prm := range yf.Params {
		v := c.fresh("yield."+prm.Name(), c.S.SortOf(prm.Type()))
		c.assumeFacts(breach, v, prm.Type(), body)
		nf.vals[prm] = val{t: v}
	}
	for i, fv := range yf.FreeVars {
		if i < len(bindings) {
			nf.vals[fv] = bindings[i]
		}
	}
	errs1 := errs
	if n := len(yf.Params); n > 0 {
		last := yf.Params[n-1]
		if types.Identical(last.Type(), types.Universe.Lookup("error").Type()) {
			errs1 = c.define("rf.yielderrs1", "Int", fmt.Sprintf("(+ %s (ite (= %s nilI) 0 1))", errs, nf.vals[last].t))
		}
	}
	rets := c.runBody(nf, breach, body)
	li.extra["yielderrs"] = sval{t: errs1, sort: "Int", gt: intT}
	conds := []string{and(reach, done)}
	sts := []*state{st.clone()}
	for _, r := range rets {
		if len(r.results) != 1 {
			continue
		}
		cont := c.termOf(r.results[0], "yield result")
		// preserved when the body asks for another element
		c.checkInvariants(fr, li, and(r.cond, cont), r.st, nil, "preserved")
		conds = append(conds, and(r.cond, not(cont)))
		sts = append(sts, r.st)
	}
	merged := c.mergeStates(conds, sts)
	st.h = merged.h
	c.assume(implies(reach, or(conds...)))
	if fr.top {
		c.rfErrsFinal = c.define("rf.yielderrsF", "Int", fmt.Sprintf("(ite %s (ite %s %s %s) 0)", reach, done, errs, errs1))
	}
}


// ghostFrameCheck: a post-condition that relates a ghost state g(x) to old(g(x)) says that g changes; unless the contract's
// assigns clause lists g, call sites keep the old value AND assume the clause — a contradiction that makes every path after
// the call vacuously verified.  Checked syntactically for the contract under verification and for every contract applied.
func (c *fctx) ghostFrameCheck(ct *spec.FuncContract, key string) {
	if ct == nil || (ct.Assigns != nil && ct.Assigns.Any) {
		return
	}
	if c.ghostChecked == nil {
		c.ghostChecked = map[*spec.FuncContract]bool{}
	}
	if c.ghostChecked[ct] {
		return
	}
	c.ghostChecked[ct] = true
	declared := map[string]bool{}
	if ct.Assigns != nil {
		for _, loc := range ct.Assigns.Locs {
			if cl, ok := loc.(*spec.Call); ok {
				if id, ok := cl.Fun.(*spec.Ident); ok {
					declared[id.Name] = true
				}
			}
		}
	}
	var inOld func(x spec.Expr, old bool)
	inOld = func(x spec.Expr, old bool) {
		switch x := x.(type) {
		case nil:
		case *spec.Old:
			inOld(x.X, true)
		case *spec.Call:
			if id, ok := x.Fun.(*spec.Ident); ok && old {
				if pf := c.P.Pures[id.Name]; pf != nil && pf.State && !declared[id.Name] {
					c.errorf("contract of %s: a post-condition mentions old(%s(...)) but %s is not in the assigns clause (callers would assume both the old and the new value)", shortFn(key), id.Name, id.Name)
					declared[id.Name] = true
				}
			}
			for _, a := range x.Args {
				inOld(a, old)
			}
		case *spec.Unary:
			inOld(x.X, old)
		case *spec.Binary:
			inOld(x.X, old)
			inOld(x.Y, old)
		case *spec.Cond:
			inOld(x.C, old)
			inOld(x.A, old)
			inOld(x.B, old)
		case *spec.Index:
			inOld(x.X, old)
			inOld(x.I, old)
		case *spec.SliceE:
			inOld(x.X, old)
			inOld(x.Lo, old)
			inOld(x.Hi, old)
		case *spec.Select:
			inOld(x.X, old)
		case *spec.Quant:
			inOld(x.Body, old)
		case *spec.TypeIs:
			inOld(x.X, old)
		case *spec.Cast:
			inOld(x.X, old)
		case *spec.Let:
			inOld(x.Val, old)
			inOld(x.Body, old)
		}
	}
	for _, cl := range ct.Ensures {
		inOld(cl.E, false)
	}
	for _, cl := range ct.Defines {
		inOld(cl.E, false)
	}
	for _, cl := range ct.Assumes {
		inOld(cl.E, false)
	}
}
