package vc

import (
	"fmt"
	"go/token"
	"go/types"
	"sort"
	"strings"

	"golang.org/x/tools/go/ssa"

	"govc/internal/spec"
)

const maxInlineDepth = 10

func (c *fctx) call(fr *frame, in ssa.CallInstruction, reach string, st *state) val {
	cm := in.Common()
	pos := in.Pos()
	var resT types.Type
	if v, ok := in.(ssa.Value); ok {
		resT = v.Type()
	}
	// builtins
	if b, ok := cm.Value.(*ssa.Builtin); ok {
		return c.builtin(fr, b, cm, reach, st, pos, resT)
	}
	args := make([]val, 0, len(cm.Args)+1)
	if cm.IsInvoke() {
		recv := c.operand(fr, cm.Value)
		args = append(args, recv)
		for _, a := range cm.Args {
			args = append(args, c.operand(fr, a))
		}
		c.safety(fr, "nil-interface-call", pos, reach, fmt.Sprintf("(not (= %s nilI))", recv.t))
		key := "(" + types.Unalias(cm.Value.Type()).String() + ")." + cm.Method.Name()
		ct := c.P.Contracts[key]
		if ct == nil {
			c.errorf("%s: no contract for interface method %s", fr.fn, key)
			return c.havocResult(resT, reach, st)
		}
		sig := cm.Method.Type().(*types.Signature)
		return c.applyContract(fr, key, ct, nil, sig, true, args, st, reach, pos, resT)
	}
	for _, a := range cm.Args {
		args = append(args, c.operand(fr, a))
	}
	callee := cm.StaticCallee()
	var bindings []val
	if callee == nil {
		fv := c.operand(fr, cm.Value)
		if fv.clo != nil {
			callee = fv.clo.fn
			bindings = fv.clo.bindings
		}
	} else if mc, ok := cm.Value.(*ssa.MakeClosure); ok {
		bindings = c.operand(fr, mc).clo.bindings
	}
	if callee == nil {
		// call through an unknown function value: deterministic, effect-free application (assumption)
		fv := c.operand(fr, cm.Value)
		c.safety(fr, "nil-func-call", pos, reach, fmt.Sprintf("(not (= %s nilFn))", fv.t))
		if ct := c.P.Contracts["functype "+types.Unalias(cm.Value.Type()).String()]; ct != nil {
			return c.applyContract(fr, "functype "+types.Unalias(cm.Value.Type()).String(), ct, nil, cm.Signature(), false, args, st, reach, pos, resT)
		}
		return c.applyFnValue(fr, fv.t, cm.Signature(), args, reach, st, resT)
	}
	ct := c.P.ContractFor(callee)
	if ct != nil && !ct.Inline && len(bindings) == 0 {
		return c.applyContract(fr, callee.String(), ct, callee, callee.Signature, false, args, st, reach, pos, resT)
	}
	if c.canInline(fr, callee, ct) {
		return c.inline(fr, callee, args, bindings, st, reach, pos, resT, ct)
	}
	c.errorf("%s: call to %s has neither contract nor inlinable body", fr.fn, callee)
	return c.havocResult(resT, reach, st)
}

func (c *fctx) canInline(fr *frame, callee *ssa.Function, ct *spec.FuncContract) bool {
	if len(callee.Blocks) == 0 {
		return false
	}
	if fr.depth >= maxInlineDepth {
		return false
	}
	for f := fr; f != nil; f = f.parent {
		if f.fn == callee {
			return false // recursion needs a contract
		}
	}
	if ct != nil && ct.Inline {
		return true
	}
	if callee.Pkg == nil && callee.Parent() == nil {
		return false
	}
	pk := callee.Pkg
	if pk == nil && callee.Parent() != nil {
		pk = callee.Parent().Pkg
	}
	if pk == nil || !strings.HasPrefix(pk.Pkg.Path(), ModulePath) {
		return false
	}
	// loops in an inlined callee need invariants from a contract
	if len(findLoops(callee)) > 0 && (ct == nil || len(ct.Loops) == 0) {
		return false
	}
	return true
}

func (c *fctx) havocResult(t types.Type, reach string, st *state) val {
	if t == nil {
		return val{}
	}
	if tup, ok := t.(*types.Tuple); ok {
		if tup.Len() == 0 {
			return val{}
		}
		var vs []val
		for i := 0; i < tup.Len(); i++ {
			vs = append(vs, c.havocResult(tup.At(i).Type(), reach, st))
		}
		return val{tup: vs}
	}
	v := c.fresh("res", c.S.SortOf(t))
	c.assumeFacts(reach, v, t, st)
	return val{t: v}
}

func (c *fctx) applyFnValue(fr *frame, f string, sig *types.Signature, args []val, reach string, st *state, resT types.Type) val {
	c.used["assumed:calls through unknown function values are deterministic and effect-free"] = true
	var asorts, aterms []string
	for i, a := range args {
		asorts = append(asorts, c.S.SortOf(sig.Params().At(i).Type()))
		aterms = append(aterms, c.termOf(a, "function argument"))
	}
	mk := func(i int, t types.Type) val {
		name := q(fmt.Sprintf("apply.%s.%d", shortType(sig), i))
		c.S.declareOnce(fmt.Sprintf("(declare-fun %s (Fn %s) %s)", name, strings.Join(asorts, " "), c.S.SortOf(t)))
		r := c.define("app", c.S.SortOf(t), fmt.Sprintf("(%s %s %s)", name, f, strings.Join(aterms, " ")))
		c.assumeFacts(reach, r, t, st)
		return val{t: r}
	}
	res := sig.Results()
	switch res.Len() {
	case 0:
		return val{}
	case 1:
		return mk(0, res.At(0).Type())
	}
	var vs []val
	for i := 0; i < res.Len(); i++ {
		vs = append(vs, mk(i, res.At(i).Type()))
	}
	return val{tup: vs}
}

// ---------------------------------------------------------------- inlining

func (c *fctx) inline(fr *frame, callee *ssa.Function, args []val, bindings []val, st *state, reach string, pos token.Pos, resT types.Type, ct *spec.FuncContract) val {
	nf := &frame{fn: callee, vals: map[ssa.Value]val{}, prefix: fr.prefix + callee.Name() + ">", parent: fr, depth: fr.depth + 1, contract: ct}
	if len(args) != len(callee.Params) {
		c.errorf("%s: inlining %s: %d args for %d params", fr.fn, callee, len(args), len(callee.Params))
		return c.havocResult(resT, reach, st)
	}
	for i, p := range callee.Params {
		nf.vals[p] = args[i]
	}
	for i, fv := range callee.FreeVars {
		if i < len(bindings) {
			nf.vals[fv] = bindings[i]
		}
	}
	rets := c.runBody(nf, reach, st)
	if len(rets) == 0 {
		// callee never returns normally on this path
		c.assume(not(reach))
		return c.havocResult(resT, reach, st)
	}
	conds := make([]string, len(rets))
	sts := make([]*state, len(rets))
	for i, r := range rets {
		conds[i] = r.cond
		sts[i] = r.st
	}
	merged := c.mergeStates(conds, sts)
	st.h = merged.h
	// control continues only if the callee returned
	c.assume(implies(reach, or(conds...)))
	nres := len(rets[0].results)
	if nres == 0 {
		return val{}
	}
	out := make([]val, nres)
	for i := 0; i < nres; i++ {
		vs := make([]val, len(rets))
		for j, r := range rets {
			vs[j] = r.results[i]
		}
		var t types.Type
		if tup, ok := resT.(*types.Tuple); ok {
			t = tup.At(i).Type()
		} else {
			t = resT
		}
		if t == nil {
			t = callee.Signature.Results().At(i).Type()
		}
		out[i] = c.mergeVals(conds, vs, t, callee.Name())
	}
	if nres == 1 {
		return out[0]
	}
	return val{tup: out}
}

// ---------------------------------------------------------------- contracts at call sites

// paramNames returns the names binding a contract's parameters (receiver first) and results.
func contractNames(ct *spec.FuncContract, fn *ssa.Function, sig *types.Signature, invoke bool) (params []string, results []string) {
	if len(ct.Params) > 0 {
		for _, p := range ct.Params {
			params = append(params, p.Name)
		}
	} else if fn != nil {
		for _, p := range fn.Params {
			params = append(params, p.Name())
		}
	} else {
		if invoke || sig.Recv() != nil {
			params = append(params, "self")
		}
		for i := 0; i < sig.Params().Len(); i++ {
			n := sig.Params().At(i).Name()
			if n == "" || n == "_" {
				n = fmt.Sprintf("arg%d", i)
			}
			params = append(params, n)
		}
	}
	if len(ct.Results) > 0 {
		for _, r := range ct.Results {
			results = append(results, r.Name)
		}
	} else {
		rs := sig.Results()
		for i := 0; i < rs.Len(); i++ {
			n := rs.At(i).Name()
			if n == "" || n == "_" {
				if rs.Len() == 1 {
					n = "result"
				} else {
					n = fmt.Sprintf("result%d", i)
				}
			}
			results = append(results, n)
		}
	}
	return
}

func (c *fctx) paramTypes(fn *ssa.Function, sig *types.Signature, invoke bool, recvT types.Type) []types.Type {
	var ts []types.Type
	if fn != nil {
		for _, p := range fn.Params {
			ts = append(ts, p.Type())
		}
		return ts
	}
	if invoke {
		ts = append(ts, recvT)
	}
	for i := 0; i < sig.Params().Len(); i++ {
		ts = append(ts, sig.Params().At(i).Type())
	}
	return ts
}

func (c *fctx) specEnv(ct *spec.FuncContract, pkg *types.Package, st, old *state) *env {
	e := &env{c: c, vars: map[string]sval{}, st: st, old: old, file: c.P.FileOfPkg[ct.File]}
	e.pkg = pkg
	if e.pkg == nil && e.file != nil {
		e.pkg = c.P.TypesPkgs[e.file.Pkg]
	}
	return e
}

func (c *fctx) applyContract(fr *frame, key string, ct *spec.FuncContract, fn *ssa.Function, sig *types.Signature, invoke bool, args []val, st *state, reach string, pos token.Pos, resT types.Type) val {
	c.used[contractLabel(ct, key)] = true
	var recvT types.Type
	if invoke {
		recvT = types.NewInterfaceType(nil, nil)
	}
	pnames, rnames := contractNames(ct, fn, sig, invoke)
	ptypes := c.paramTypes(fn, sig, invoke, recvT)
	if len(pnames) != len(args) {
		c.errorf("%s: contract %s binds %d parameters, call has %d arguments", fr.fn, key, len(pnames), len(args))
		return c.havocResult(resT, reach, st)
	}
	var pkg *types.Package
	if fn != nil && fn.Pkg != nil {
		pkg = fn.Pkg.Pkg
	}
	pre := st.clone()
	e := c.specEnv(ct, pkg, st, pre)
	for i, n := range pnames {
		var gt types.Type
		if i < len(ptypes) {
			gt = ptypes[i]
		}
		srt := "Iface"
		if gt != nil {
			srt = c.S.SortOf(gt)
		}
		e.vars[n] = sval{t: c.termOf(args[i], "argument "+n), sort: srt, gt: gt}
	}
	short := shortFn(key)
	for i, r := range ct.Requires {
		g := e.tr(r.E)
		lbl := fmt.Sprint(i)
		if r.Label != "" {
			lbl = r.Label
		}
		c.addObl(&Obligation{Name: fr.prefix + "call-requires:" + short + "#" + lbl + "@" + c.P.SrcLine(pos), Kind: "requires", Guard: reach, Goal: g.t, Pos: c.pos(pos), SrcLine: c.P.SrcLine(pos), Clause: r.Src})
	}
	// recursion: the measure must decrease (lexicographically) and be bounded below
	if fn != nil && fn == c.fn && len(ct.Decr) > 0 && len(c.fnDecr0) == len(ct.Decr) {
		var now []string
		for _, d := range ct.Decr {
			now = append(now, e.tr(d).t)
		}
		var alts []string
		for i := range now {
			var cs []string
			for j := 0; j < i; j++ {
				cs = append(cs, fmt.Sprintf("(= %s %s)", now[j], c.fnDecr0[j]))
			}
			cs = append(cs, fmt.Sprintf("(< %s %s)", now[i], c.fnDecr0[i]), fmt.Sprintf("(>= %s 0)", c.fnDecr0[i]))
			alts = append(alts, and(cs...))
		}
		c.addObl(&Obligation{Name: fr.prefix + "recursion/decreases@" + c.P.SrcLine(pos), Kind: "decreases", Guard: reach, Goal: or(alts...), Pos: c.pos(pos), SrcLine: c.P.SrcLine(pos)})
	} else if fn != nil && fn == c.fn && len(ct.Decr) == 0 {
		c.errorf("%s: recursive call without a decreases clause", fn)
	}
	// the callee calls some of its function-valued arguments (with arbitrary arguments)
	for _, inv := range ct.Invokes {
		for i, n := range pnames {
			if n != inv {
				continue
			}
			av := args[i]
			if av.clo == nil || len(av.clo.fn.Blocks) == 0 {
				c.used["assumed:calls through unknown function values are deterministic and effect-free"] = true
				continue
			}
			var cargs []val
			for _, prm := range av.clo.fn.Params {
				v := c.fresh("cb."+prm.Name(), c.S.SortOf(prm.Type()))
				c.assumeFacts(reach, v, prm.Type(), st)
				if _, isI := types.Unalias(prm.Type()).Underlying().(*types.Interface); isI {
					c.assume(implies(reach, fmt.Sprintf("(not (= %s nilI))", v)))
				}
				cargs = append(cargs, val{t: v})
			}
			c.inline(fr, av.clo.fn, cargs, av.clo.bindings, st, reach, pos, av.clo.fn.Signature.Results(), c.P.ContractFor(av.clo.fn))
		}
	}
	// frame: havoc what the callee may assign
	preAlloc := c.region(st, "alloc", "(Array Int Bool)")
	c.havocAssigns(fr, ct, e, st, reach, pos)
	// the callee may allocate
	c.loopCheck(fr, "alloc")
	na := c.fresh("H.alloc", "(Array Int Bool)")
	st.h["alloc"] = na
	c.regions["alloc"] = "(Array Int Bool)"
	c.assume(fmt.Sprintf("(forall ((x!a Int)) (! (=> (select %s x!a) (select %s x!a)) :pattern ((select %s x!a))))", preAlloc, na, preAlloc))
	e.st = st
	e.preAlloc = preAlloc
	// results
	var results []val
	rs := sig.Results()
	for i := 0; i < rs.Len(); i++ {
		t := rs.At(i).Type()
		srt := c.S.SortOf(t)
		v := c.fresh("r."+short, srt)
		c.assumeFacts(reach, v, t, st)
		results = append(results, val{t: v})
		if i < len(rnames) {
			e.vars[rnames[i]] = sval{t: v, sort: srt, gt: t}
		}
	}
	for _, en := range ct.Ensures {
		g := e.tr(en.E)
		c.assume(implies(reach, g.t))
	}
	for _, en := range ct.Assumes {
		g := e.tr(en.E)
		c.assume(implies(reach, g.t))
		c.used["assumed-postcondition:"+key+": "+en.Src] = true
	}
	switch len(results) {
	case 0:
		return val{}
	case 1:
		return results[0]
	}
	return val{tup: results}
}

func contractLabel(ct *spec.FuncContract, key string) string {
	if ct.Extern {
		return "assumed-contract:" + key
	}
	if ct.Trusted {
		return "trusted-contract:" + key
	}
	return "contract:" + key
}

func shortFn(key string) string {
	s := strings.ReplaceAll(key, ModulePath+"/", "")
	s = strings.ReplaceAll(s, "github.com/", "")
	return s
}

// havocAssigns havocs the heap regions a callee may write, according to its assigns clause.
func (c *fctx) havocAssigns(fr *frame, ct *spec.FuncContract, e *env, st *state, reach string, pos token.Pos) {
	as := ct.Assigns
	if as == nil || as.Nothing {
		return
	}
	if as.Any {
		var ks []string
		for k := range c.regions {
			ks = append(ks, k)
		}
		sort.Strings(ks)
		for _, k := range ks {
			if strings.HasPrefix(k, "G:") && c.used["global-fact:"+k] {
				continue
			}
			c.noteWrite(k, "", reach, pos, fr, st)
			st.h[k] = c.fresh("Hc."+k, c.regions[k])
		}
		return
	}
	for _, loc := range as.Locs {
		for _, w := range c.locWrites(e, loc) {
			c.noteWrite(w.key, w.root, reach, pos, fr, st)
			old := c.region(st, w.key, w.sort)
			if w.root == "" {
				st.h[w.key] = c.fresh("Hc."+w.key, w.sort)
				continue
			}
			// only the cells rooted at w.root change
			inner := strings.TrimSuffix(strings.TrimPrefix(w.sort, "(Array Int "), ")")
			if in, ok := locInner[w.key]; ok {
				inner = in
			}
			nv := c.fresh("hv", inner)
			c.setRegion(st, w.key, w.sort, fmt.Sprintf("(store %s %s %s)", old, w.root, nv))
		}
	}
}

type locWrite struct{ key, sort, root string }

// locInner: sort of one cell for ghost-state regions (regions not indexed by Int), by key.
var locInner = map[string]string{}

// locWrites interprets one assigns location: a pointer (all fields of the pointee), a slice
// (its backing array), a map (its entries), or x.f (one field).
func (c *fctx) locWrites(e *env, loc spec.Expr) []locWrite {
	if sel, ok := loc.(*spec.Select); ok {
		base := e.tr(sel.X)
		if base.gt != nil {
			if pt, ok := types.Unalias(base.gt).Underlying().(*types.Pointer); ok {
				if si := c.S.StructOf(pt.Elem()); si != nil {
					for _, f := range si.Fields {
						if f.Name == sel.Sel {
							out := []locWrite{{"F:" + si.Name + "." + f.Name, "(Array Int " + f.Sort + ")", base.t}}
							// x.f of map or slice type also stands for the contents it currently refers to
							cur := e.tr(loc)
							switch ft := types.Unalias(f.T).Underlying().(type) {
							case *types.Map:
								out = append(out, locWrite{c.mapHasKey(ft), c.mapHasSort(ft), cur.t}, locWrite{c.mapValKey(ft), c.mapValSort(ft), cur.t}, locWrite{c.mapLenKey(ft), "(Array Int Int)", cur.t})
							case *types.Slice:
								out = append(out, locWrite{c.elemKey(ft.Elem()), c.elemSort(c.S.SortOf(ft.Elem())), "(sbase " + cur.t + ")"})
							}
							return out
						}
					}
				}
			}
		}
	}
	if cl, ok := loc.(*spec.Call); ok {
		if id, ok := cl.Fun.(*spec.Ident); ok {
			if pf := c.P.Pures[id.Name]; pf != nil && pf.State && len(cl.Args) == 1 {
				file := c.P.FileOfPkg[pf.File]
				_, ps, err1 := c.P.ResolveType(pf.Params[0].Type, file, c.S)
				_, rs, err2 := c.P.ResolveType(pf.Result, file, c.S)
				if pf.Result == "bool" {
					rs, err2 = "Bool", nil
				}
				if err1 != nil || err2 != nil {
					c.errorf("assigns: cannot resolve ghost state %s", id.Name)
					return nil
				}
				a := e.tr(cl.Args[0])
				locInner["X:"+pf.Name] = rs
				return []locWrite{{"X:" + pf.Name, "(Array " + ps + " " + rs + ")", a.t}}
			}
		}
	}
	if id, ok := loc.(*spec.Ident); ok && strings.HasPrefix(id.Name, "region_") {
		key := strings.TrimPrefix(id.Name, "region_")
		return []locWrite{{key, c.regions[key], ""}}
	}
	v := e.tr(loc)
	if v.gt == nil {
		c.errorf("assigns: untyped location %s", loc)
		return nil
	}
	switch t := types.Unalias(v.gt).Underlying().(type) {
	case *types.Pointer:
		if si := c.S.StructOf(t.Elem()); si != nil {
			var out []locWrite
			for _, f := range si.Fields {
				out = append(out, locWrite{"F:" + si.Name + "." + f.Name, "(Array Int " + f.Sort + ")", v.t})
			}
			return out
		}
		if ar, ok := types.Unalias(t.Elem()).Underlying().(*types.Array); ok {
			es := c.S.SortOf(ar.Elem())
			return []locWrite{{c.elemKey(ar.Elem()), c.elemSort(es), v.t}}
		}
		srt := c.S.SortOf(t.Elem())
		return []locWrite{{c.cellKey(t.Elem()), "(Array Int " + srt + ")", v.t}}
	case *types.Slice:
		es := c.S.SortOf(t.Elem())
		return []locWrite{{c.elemKey(t.Elem()), c.elemSort(es), "(sbase " + v.t + ")"}}
	case *types.Map:
		return []locWrite{
			{c.mapHasKey(t), c.mapHasSort(t), v.t},
			{c.mapValKey(t), c.mapValSort(t), v.t},
			{c.mapLenKey(t), "(Array Int Int)", v.t},
		}
	}
	c.errorf("assigns: unsupported location %s of type %s", loc, v.gt)
	return nil
}

// ---------------------------------------------------------------- builtins

func (c *fctx) builtin(fr *frame, b *ssa.Builtin, cm *ssa.CallCommon, reach string, st *state, pos token.Pos, resT types.Type) val {
	arg := func(i int) val { return c.operand(fr, cm.Args[i]) }
	switch b.Name() {
	case "len":
		v := arg(0)
		switch t := types.Unalias(cm.Args[0].Type()).Underlying().(type) {
		case *types.Basic:
			return val{t: "(len " + v.t + ")"}
		case *types.Slice:
			return val{t: "(slen " + v.t + ")"}
		case *types.Map:
			r := c.define("maplen", "Int", fmt.Sprintf("(ite (= %s 0) 0 (select %s %s))", v.t, c.region(st, c.mapLenKey(t), "(Array Int Int)"), v.t))
			c.assume(fmt.Sprintf("(>= %s 0)", r))
			return val{t: r}
		case *types.Array:
			return val{t: fmt.Sprint(t.Len())}
		case *types.Pointer:
			if ar, ok := types.Unalias(t.Elem()).Underlying().(*types.Array); ok {
				return val{t: fmt.Sprint(ar.Len())}
			}
		}
	case "cap":
		v := arg(0)
		if _, ok := types.Unalias(cm.Args[0].Type()).Underlying().(*types.Slice); ok {
			return val{t: "(scap " + v.t + ")"}
		}
	case "append":
		return c.doAppend(fr, cm, reach, st, pos)
	case "copy":
		return c.doCopy(fr, cm, reach, st, pos)
	case "delete":
		mt := types.Unalias(cm.Args[0].Type()).Underlying().(*types.Map)
		m, k := arg(0).t, c.termOf(arg(1), "map key")
		hk, hs := c.mapHasKey(mt), c.mapHasSort(mt)
		lk := c.mapLenKey(mt)
		has := c.region(st, hk, hs)
		ml := c.region(st, lk, "(Array Int Int)")
		c.noteWrite(hk, m, reach, pos, fr, st)
		c.noteWrite(lk, m, reach, pos, fr, st)
		c.setRegion(st, lk, "(Array Int Int)", fmt.Sprintf("(ite (and (not (= %s 0)) (select (select %s %s) %s)) (store %s %s (- (select %s %s) 1)) %s)", m, has, m, k, ml, m, ml, m, ml))
		c.setRegion(st, hk, hs, fmt.Sprintf("(ite (= %s 0) %s (store %s %s (store (select %s %s) %s false)))", m, has, has, m, has, m, k))
		return val{}
	case "min", "max":
		a, bb := arg(0).t, arg(1).t
		op := "<="
		if b.Name() == "max" {
			op = ">="
		}
		return val{t: fmt.Sprintf("(ite (%s %s %s) %s %s)", op, a, bb, a, bb)}
	case "print", "println":
		return val{}
	case "recover":
		c.used["abstracted:recover() returns an arbitrary value (panics inside the protected region are not modelled)"] = true
		return val{t: c.fresh("recovered", "Iface")}
	}
	c.errorf("%s: unsupported builtin %s", fr.fn, b.Name())
	return c.havocResult(resT, reach, st)
}

func (c *fctx) doAppend(fr *frame, cm *ssa.CallCommon, reach string, st *state, pos token.Pos) val {
	s := c.operand(fr, cm.Args[0]).t
	src := c.operand(fr, cm.Args[1])
	st0 := types.Unalias(cm.Args[0].Type()).Underlying().(*types.Slice)
	et := st0.Elem()
	es := c.S.SortOf(et)
	key, srt := c.elemKey(et), c.elemSort(es)
	h := c.region(st, key, srt)
	var n string
	var srcAt func(j string) string
	if isString(cm.Args[1].Type()) {
		n = "(len " + src.t + ")"
		srcAt = func(j string) string { return fmt.Sprintf("(at %s %s)", src.t, j) }
	} else {
		n = "(slen " + src.t + ")"
		srcAt = func(j string) string {
			return fmt.Sprintf("(select (select %s (sbase %s)) (idx (soff %s) %s))", h, src.t, src.t, j)
		}
	}
	nlen := c.define("aplen", "Int", fmt.Sprintf("(+ (slen %s) %s)", s, n))
	fits := c.define("apfits", "Bool", fmt.Sprintf("(<= %s (scap %s))", nlen, s))
	fresh := c.allocate(st, reach, "append")
	c.loopCheck(fr, "alloc")
	ncap := c.fresh("apcap", "Int")
	c.assume(fmt.Sprintf("(>= %s %s)", ncap, nlen))
	res := c.define("ap", "Slice", fmt.Sprintf("(ite %s (mkslice (sbase %s) (soff %s) %s (scap %s)) (mkslice %s 0 %s %s))", fits, s, s, nlen, s, fresh, nlen, ncap))
	// the in-place case writes the existing backing array
	c.noteWriteCond(key, "(sbase "+s+")", and(reach, fits, fmt.Sprintf("(> %s 0)", n)), pos, fr, st)
	c.loopCheck(fr, key)
	arr := c.fresh("aparr", "(Array Int "+es+")")
	// old elements are kept, appended elements follow (one axiom, triggered on the result element)
	c.assume(fmt.Sprintf("(forall ((j!p Int)) (! (=> (and (<= 0 j!p) (< j!p %s)) (= (select %s (idx (soff %s) j!p)) (ite (< j!p (slen %s)) (select (select %s (sbase %s)) (idx (soff %s) j!p)) %s))) :pattern ((select %s (idx (soff %s) j!p)))))", nlen, arr, res, s, h, s, s, srcAt("(- j!p (slen "+s+"))"), arr, res))
	// appended elements, triggered on the source element
	c.assume(fmt.Sprintf("(forall ((j!p Int)) (! (=> (and (<= 0 j!p) (< j!p %s)) (= (select %s (idx (soff %s) (+ (slen %s) j!p))) %s)) :pattern (%s)))", n, arr, res, s, srcAt("j!p"), srcAt("j!p")))
	// in place: everything outside the appended window is unchanged
	c.assume(fmt.Sprintf("(=> %s (forall ((x!p Int)) (! (=> (or (< x!p (+ (soff %s) (slen %s))) (>= x!p (+ (soff %s) %s))) (= (select %s x!p) (select (select %s (sbase %s)) x!p))) :pattern ((select %s x!p)))))", fits, s, s, s, nlen, arr, h, s, arr))
	c.setRegion(st, key, srt, fmt.Sprintf("(store %s (sbase %s) %s)", h, res, arr))
	return val{t: res}
}

func (c *fctx) noteWriteCond(key, root, guard string, pos token.Pos, fr *frame, st *state) {
	c.noteWrite(key, root, guard, pos, fr, st)
}

func (c *fctx) doCopy(fr *frame, cm *ssa.CallCommon, reach string, st *state, pos token.Pos) val {
	dst := c.operand(fr, cm.Args[0]).t
	src := c.operand(fr, cm.Args[1])
	et := types.Unalias(cm.Args[0].Type()).Underlying().(*types.Slice).Elem()
	es := c.S.SortOf(et)
	key, srt := c.elemKey(et), c.elemSort(es)
	h := c.region(st, key, srt)
	var n string
	var srcAt func(j string) string
	if isString(cm.Args[1].Type()) {
		n = "(len " + src.t + ")"
		srcAt = func(j string) string { return fmt.Sprintf("(at %s %s)", src.t, j) }
	} else {
		n = "(slen " + src.t + ")"
		srcAt = func(j string) string {
			return fmt.Sprintf("(select (select %s (sbase %s)) (idx (soff %s) %s))", h, src.t, src.t, j)
		}
	}
	cnt := c.define("cpn", "Int", fmt.Sprintf("(ite (<= (slen %s) %s) (slen %s) %s)", dst, n, dst, n))
	c.noteWrite(key, "(sbase "+dst+")", and(reach, fmt.Sprintf("(> %s 0)", cnt)), pos, fr, st)
	arr := c.fresh("cparr", "(Array Int "+es+")")
	c.assume(fmt.Sprintf("(forall ((j!p Int)) (! (=> (and (<= 0 j!p) (< j!p %s)) (= (select %s (idx (soff %s) j!p)) %s)) :pattern ((select %s (idx (soff %s) j!p)))))", cnt, arr, dst, srcAt("j!p"), arr, dst))
	c.assume(fmt.Sprintf("(forall ((x!p Int)) (! (=> (or (< x!p (soff %s)) (>= x!p (+ (soff %s) %s))) (= (select %s x!p) (select (select %s (sbase %s)) x!p))) :pattern ((select %s x!p))))", dst, dst, cnt, arr, h, dst, arr))
	c.setRegion(st, key, srt, fmt.Sprintf("(ite (= (sbase %s) 0) %s (store %s (sbase %s) %s))", dst, h, h, dst, arr))
	return val{t: cnt}
}
