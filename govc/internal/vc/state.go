package vc

import (
	"sync"
	"govc/internal/spec"
	"fmt"
	"go/token"
	"go/types"
	"sort"
	"strings"

	"golang.org/x/tools/go/ssa"
)

// ---------------------------------------------------------------- heap state

// state maps heap-region keys to the SMT term currently denoting that region.
type state struct {
	h map[string]string
}

func (s *state) clone() *state {
	n := &state{h: make(map[string]string, len(s.h))}
	for k, v := range s.h {
		n.h[k] = v
	}
	return n
}

// ---------------------------------------------------------------- values

type addrKind int

const (
	aCell   addrKind = iota // P:<sort>[ref]
	aField                  // F:<struct>.<field>[ref]
	aElem                   // E:<sort>[base][idx]
	aGlobal                 // G:<name>
)

type pathStep struct {
	si  *StructInfo
	idx int
}

// addr is a symbolic address (an lvalue).
type addr struct {
	kind addrKind
	key  string // region key
	ref  string // Ref / base term
	idx  string // element index (aElem)
	path []pathStep
	typ  types.Type // type of the value stored at this address (end of path)
	rootT types.Type // type of the root cell (before path); nil => typ
	// for aElem on fixed arrays: length known
	rootSort string
}

type closure struct {
	fn       *ssa.Function
	bindings []val
}

type val struct {
	t   string // SMT term
	a   *addr
	clo *closure
	tup []val
	it  *iterState // result of ssa.Range
	// interface value made from a value of statically known type (ssa.MakeInterface)
	dynT types.Type
	dynV *val
}

type iterState struct {
	x    val
	typ  types.Type
	isStr bool
}

// Obligation is one proof obligation: assumptions[0:nAssume] /\ guard ==> goal.
type Obligation struct {
	Name    string
	Kind    string // ensures | assigns | invariant-established | invariant-preserved | decreases | requires | safety | lemma | vacuity
	Tags    []string
	Func    string
	Guard   string
	Goal    string
	Pos     token.Position
	SrcLine string
	Clause  string
	nAssume int
	nDecl   int
	nSort   int
	ctx     *fctx
	query   string
	// ExpectSat: vacuity canaries expect sat/unknown, never unsat
	ExpectSat bool
	Inputs    []string // terms whose values are requested in the model
	Extra     []string // assumptions of this obligation only (lemmas named in the clause)
	tag       pathTag
}

// fctx is the verification context of one function under contract.
// pathTag says where an assumption or obligation was generated: the basic block of the function under verification that
// was being executed (nil: before / after the body) and, for a latch block executed once per incoming path, which copy.
type pathTag struct {
	blk  *ssa.BasicBlock
	copy int
}

type fctx struct {
	curTag    pathTag
	assumeTag []pathTag // parallel to assumes
	dagReach  map[*ssa.BasicBlock]map[*ssa.BasicBlock]bool
	dagMu     sync.Mutex // Query runs concurrently
	quiet   map[string][]string // quiet post-conditions of the calls made so far, by "<callee>.<label>"
	P       *Prog
	S       *Sorts
	fn      *ssa.Function
	decls   []string
	assumes []string
	obls    []*Obligation
	regions map[string]string // region key -> sort
	keyTypes map[string]types.Type
	nfresh  int
	entry   *state
	errs    []string
	used    map[string]bool // contracts / stubs used (trusted base report)
	pureDef map[string]bool // define-fun-rec emitted
	nameCnt map[string]int
	depth   int
	assignsChecked bool
	assignsOK func(key string, root string) string // returns goal term or "" if no obligation needed
	lemmasUsed map[string]bool
	inputs  []string
	ifaceSeen map[string]types.Type
	fnDecr0 []string // the function's decreases measure at entry
	modeNoAssigns bool
	noRecCheck    bool
	freshGlobals  []string
	ghostChecked  map[*spec.FuncContract]bool
	rfErrsFinal   string // yielderrs after the function's (top-level) range-over-func loop, 0 on paths that never reach it
}

func (c *fctx) fresh(prefix, sort string) string {
	c.nfresh++
	name := fmt.Sprintf("%s!%d", prefix, c.nfresh)
	name = q(name)
	c.decls = append(c.decls, fmt.Sprintf("(declare-const %s %s)", name, sort))
	return name
}

func (c *fctx) define(prefix, sort, term string) string {
	// avoid introducing names for trivially small terms
	if !strings.ContainsAny(term, " (") {
		return term
	}
	n := c.fresh(prefix, sort)
	c.assumes = append(c.assumes, fmt.Sprintf("(= %s %s)", n, term))
	c.assumeTag = append(c.assumeTag, c.curTag)
	return n
}

func (c *fctx) assume(t string) {
	if t == "" || t == "true" {
		return
	}
	c.assumes = append(c.assumes, t)
	c.assumeTag = append(c.assumeTag, c.curTag)
}

// assumeGlobal records a fact that is stated once, where it is first needed, but holds on every path (facts about
// package-level variables, lemmas): it is not subject to the path slicing of Query.
func (c *fctx) assumeGlobal(t string) {
	if t == "" || t == "true" {
		return
	}
	c.assumes = append(c.assumes, t)
	c.assumeTag = append(c.assumeTag, pathTag{})
}

func (c *fctx) errorf(format string, args ...interface{}) {
	c.errs = append(c.errs, fmt.Sprintf(format, args...))
}

// region returns the term of a heap region in a state, creating the initial symbol on demand.
func (c *fctx) region(st *state, key, sort string) string {
	if t, ok := st.h[key]; ok {
		return t
	}
	if key == "alloc" {
		return "alloc0"
	}
	if _, ok := c.regions[key]; !ok {
		c.regions[key] = sort
		c.decls = append(c.decls, fmt.Sprintf("(declare-const %s %s)", q("H0."+key), sort))
	}
	return q("H0." + key)
}

func (c *fctx) setRegion(st *state, key, sort, term string) {
	if _, ok := c.regions[key]; !ok && key != "alloc" {
		c.regions[key] = sort
		c.decls = append(c.decls, fmt.Sprintf("(declare-const %s %s)", q("H0."+key), sort))
	}
	if key == "alloc" {
		c.regions[key] = sort
	}
	st.h[key] = c.define("H."+key, sort, term)
}

func (c *fctx) regionSort(key string) string {
	if key == "alloc" {
		return "(Array Int Bool)"
	}
	return c.regions[key]
}

// mergeStates builds the state at a join from guarded incoming states.
func (c *fctx) mergeStates(conds []string, sts []*state) *state {
	if len(sts) == 1 {
		return sts[0].clone()
	}
	keys := map[string]bool{}
	for _, s := range sts {
		for k := range s.h {
			keys[k] = true
		}
	}
	var ks []string
	for k := range keys {
		ks = append(ks, k)
	}
	sort.Strings(ks)
	out := &state{h: map[string]string{}}
	for _, k := range ks {
		srt := c.regionSort(k)
		terms := make([]string, len(sts))
		same := true
		for i, s := range sts {
			terms[i] = c.region(s, k, srt)
			if terms[i] != terms[0] {
				same = false
			}
		}
		if same {
			out.h[k] = terms[0]
			continue
		}
		out.h[k] = c.define("H."+k, srt, iteChain(conds, terms))
	}
	return out
}

func iteChain(conds, terms []string) string {
	if len(terms) == 1 {
		return terms[0]
	}
	out := terms[len(terms)-1]
	for i := len(terms) - 2; i >= 0; i-- {
		out = fmt.Sprintf("(ite %s %s %s)", conds[i], terms[i], out)
	}
	return out
}

func and(ts ...string) string {
	var xs []string
	for _, t := range ts {
		if t == "" || t == "true" {
			continue
		}
		if t == "false" {
			return "false"
		}
		xs = append(xs, t)
	}
	switch len(xs) {
	case 0:
		return "true"
	case 1:
		return xs[0]
	}
	return "(and " + strings.Join(xs, " ") + ")"
}

func or(ts ...string) string {
	var xs []string
	for _, t := range ts {
		if t == "" || t == "false" {
			continue
		}
		if t == "true" {
			return "true"
		}
		xs = append(xs, t)
	}
	switch len(xs) {
	case 0:
		return "false"
	case 1:
		return xs[0]
	}
	return "(or " + strings.Join(xs, " ") + ")"
}

func not(t string) string {
	switch t {
	case "true":
		return "false"
	case "false":
		return "true"
	}
	if strings.HasPrefix(t, "(not ") && strings.HasSuffix(t, ")") {
		inner := t[5 : len(t)-1]
		if balanced(inner) {
			return inner
		}
	}
	return "(not " + t + ")"
}

func balanced(s string) bool {
	d := 0
	for i := 0; i < len(s); i++ {
		switch s[i] {
		case '(':
			d++
		case ')':
			d--
			if d < 0 {
				return false
			}
		case '|':
			j := strings.IndexByte(s[i+1:], '|')
			if j < 0 {
				return false
			}
			i += j + 1
		}
	}
	if d != 0 {
		return false
	}
	// a single term: either atom or one parenthesised group
	if strings.HasPrefix(s, "(") {
		d = 0
		for i := 0; i < len(s); i++ {
			switch s[i] {
			case '(':
				d++
			case ')':
				d--
				if d == 0 && i != len(s)-1 {
					return false
				}
			case '|':
				j := strings.IndexByte(s[i+1:], '|')
				i += j + 1
			}
		}
		return true
	}
	return !strings.Contains(s, " ")
}

func implies(a, b string) string {
	if a == "true" || a == "" {
		return b
	}
	if b == "true" {
		return "true"
	}
	return "(=> " + a + " " + b + ")"
}

// ---------------------------------------------------------------- type facts

// typeFacts returns invariants every Go value of type t satisfies (ranges, slice shape, allocation).
func (c *fctx) typeFacts(term string, t types.Type, alloc string, depth int) []string {
	if depth > 3 {
		return nil
	}
	var out []string
	switch u := types.Unalias(t).Underlying().(type) {
	case *types.Basic:
		if lo, hi, ok := IntRange(u); ok {
			out = append(out, fmt.Sprintf("(<= %s %s)", lo, term), fmt.Sprintf("(<= %s %s)", term, hi))
		}
		if u.Info()&types.IsString != 0 {
			// a Go string's length is an int (spec-level byte sequences are unbounded)
			out = append(out, fmt.Sprintf("(<= (len %s) 4611686018427387904)", term))
		}
	case *types.Pointer, *types.Map, *types.Chan:
		out = append(out, fmt.Sprintf("(>= %s 0)", term))
		if alloc != "" {
			out = append(out, fmt.Sprintf("(or (= %s 0) (select %s %s))", term, alloc, term))
		}
	case *types.Slice:
		out = append(out,
			fmt.Sprintf("(>= (sbase %s) 0)", term), fmt.Sprintf("(>= (soff %s) 0)", term),
			fmt.Sprintf("(>= (slen %s) 0)", term), fmt.Sprintf("(<= (slen %s) (scap %s))", term, term), fmt.Sprintf("(<= (scap %s) 4611686018427387904)", term),
			fmt.Sprintf("(=> (= (sbase %s) 0) (= %s nilSlice))", term, term))
		if alloc != "" {
			out = append(out, fmt.Sprintf("(or (= (sbase %s) 0) (select %s (sbase %s)))", term, alloc, term))
		}
	case *types.Struct:
		si := c.S.StructOf(t)
		if si != nil {
			for _, f := range si.Fields {
				out = append(out, c.typeFacts(fmt.Sprintf("(%s %s)", f.Acc, term), f.T, alloc, depth+1)...)
			}
		}
	case *types.Array:
		if lo, hi, ok := IntRange(u.Elem()); ok {
			out = append(out, fmt.Sprintf("(forall ((i!a Int)) (! (and (<= %s (select %s i!a)) (<= (select %s i!a) %s)) :pattern ((select %s i!a))))", lo, term, term, hi, term))
		}
	}
	return out
}

func (c *fctx) assumeFacts(guard, term string, t types.Type, st *state) {
	alloc := ""
	if st != nil {
		alloc = c.region(st, "alloc", "(Array Int Bool)")
	}
	fs := c.typeFacts(term, t, alloc, 0)
	if len(fs) > 0 {
		c.assume(implies(guard, and(fs...)))
	}
}

// uniqueName makes obligation names unique within a function by appending #n to repeats.
func (c *fctx) uniqueName(base string) string {
	c.nameCnt[base]++
	if n := c.nameCnt[base]; n > 1 {
		return fmt.Sprintf("%s#%d", base, n)
	}
	return base
}

func (c *fctx) addObl(o *Obligation) {
	o.Name = c.uniqueName(o.Name)
	o.Func = c.fn.String()
	o.nAssume = len(c.assumes)
	o.nDecl = len(c.decls)
	o.ctx = c
	o.tag = c.curTag
	c.obls = append(c.obls, o)
	// an asserted fact may be assumed afterwards
	if !o.ExpectSat {
		c.assume(implies(o.Guard, o.Goal))
	}
}

func (c *fctx) pos(p token.Pos) token.Position {
	if c.P.Fset == nil || !p.IsValid() {
		return token.Position{}
	}
	return c.P.Fset.Position(p)
}
