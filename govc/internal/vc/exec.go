package vc

import (
	"fmt"
	"go/constant"
	"go/token"
	"go/types"
	"sort"
	"strings"

	"golang.org/x/tools/go/ssa"

	"govc/internal/spec"
)

// frame is one activation (the function under verification or an inlined callee).
type frame struct {
	noSplit bool // do not execute latch blocks path by path
	fn      *ssa.Function
	vals    map[ssa.Value]val
	prefix  string // obligation-name prefix for inlined callees
	top     bool
	defers  []*ssa.Defer
	contract *spec.FuncContract
	entrySt *state // state at function entry (for old())
	loops   map[*ssa.BasicBlock]*loopInfo
	debug   map[string][]ssa.Instruction
	parent  *frame
	cur     *ssa.BasicBlock
	depth   int
	rfAt    ssa.Instruction // range-over-func call whose invariants are being evaluated (variable lookup stops before it)
}

type retInfo struct {
	cond    string
	st      *state
	results []val
	pos     token.Pos
}

type edge struct {
	cond string
	st   *state
	from *ssa.BasicBlock
}

type loopInfo struct {
	header  *ssa.BasicBlock
	blocks  map[*ssa.BasicBlock]bool
	ordinal int
	writes  map[string]*wsEntry
	spec    *spec.LoopSpec
	// values captured at the header for decreases
	decr0 []string
	hdrEnv *env
	hdrAlloc string // the allocation map at the loop head (allocation only grows: used as a derived fact on back edges)
	freshNames map[string]bool
	// range-over-func pseudo loop: the call instruction `it(yield)`; names are looked up before it in its block
	rfCall ssa.Instruction
	extra  map[string]sval // engine-provided ghost names usable in the invariants (yielderrs)
}

// ---------------------------------------------------------------- CFG helpers

func rpo(fn *ssa.Function, isBack func(from, to *ssa.BasicBlock) bool) []*ssa.BasicBlock {
	seen := map[*ssa.BasicBlock]bool{}
	var order []*ssa.BasicBlock
	var dfs func(b *ssa.BasicBlock)
	dfs = func(b *ssa.BasicBlock) {
		seen[b] = true
		for _, s := range b.Succs {
			if isBack(b, s) || seen[s] {
				continue
			}
			dfs(s)
		}
		order = append(order, b)
	}
	if len(fn.Blocks) > 0 {
		dfs(fn.Blocks[0])
	}
	for i, j := 0, len(order)-1; i < j; i, j = i+1, j-1 {
		order[i], order[j] = order[j], order[i]
	}
	return order
}

func findLoops(fn *ssa.Function) map[*ssa.BasicBlock]*loopInfo {
	loops := map[*ssa.BasicBlock]*loopInfo{}
	for _, b := range fn.Blocks {
		for _, s := range b.Succs {
			if s.Dominates(b) { // back edge b -> s
				li := loops[s]
				if li == nil {
					li = &loopInfo{header: s, blocks: map[*ssa.BasicBlock]bool{s: true}}
					loops[s] = li
				}
				// natural loop: all nodes that reach b without passing s
				stack := []*ssa.BasicBlock{b}
				for len(stack) > 0 {
					x := stack[len(stack)-1]
					stack = stack[:len(stack)-1]
					if li.blocks[x] {
						continue
					}
					li.blocks[x] = true
					stack = append(stack, x.Preds...)
				}
			}
		}
	}
	// ordinals by source position of the header (stable under refactoring of other code)
	var hs []*ssa.BasicBlock
	for h := range loops {
		hs = append(hs, h)
	}
	sort.Slice(hs, func(i, j int) bool {
		pi, pj := blockPos(hs[i]), blockPos(hs[j])
		if pi != pj {
			return pi < pj
		}
		return hs[i].Index < hs[j].Index
	})
	// range-over-func statements (calls `it(yield)` with a synthesized yield closure) are numbered together
	// with the natural loops, in source order
	type site struct {
		pos token.Pos
		h   *ssa.BasicBlock
		in  ssa.Instruction
	}
	var all []site
	for _, h := range hs {
		all = append(all, site{pos: blockPos(h), h: h})
	}
	for _, b := range fn.Blocks {
		for _, in := range b.Instrs {
			if isRangeFuncCall(in) != nil {
				all = append(all, site{pos: in.Pos(), in: in})
			}
		}
	}
	sort.SliceStable(all, func(i, j int) bool { return all[i].pos < all[j].pos })
	for i, s := range all {
		if s.h != nil {
			loops[s.h].ordinal = i
		}
	}
	return loops
}

// isRangeFuncCall recognises `it(yield)` where yield is the closure go/ssa synthesizes for the body of a
// range-over-func statement; it returns that closure.
func isRangeFuncCall(in ssa.Instruction) *ssa.MakeClosure {
	call, ok := in.(ssa.CallInstruction)
	if !ok {
		return nil
	}
	cm := call.Common()
	if cm.IsInvoke() || len(cm.Args) != 1 {
		return nil
	}
	mc, ok := cm.Args[0].(*ssa.MakeClosure)
	if !ok {
		return nil
	}
	if yf, ok := mc.Fn.(*ssa.Function); ok && yf.Synthetic == "range-over-func yield" {
		return mc
	}
	return nil
}

// rangeFuncOrdinal: position of a range-over-func call among all loops of fn, in source order.
func rangeFuncOrdinal(fn *ssa.Function, call ssa.Instruction) int {
	loops := findLoops(fn)
	var ps []token.Pos
	for h := range loops {
		ps = append(ps, blockPos(h))
	}
	n := 0
	for _, p := range ps {
		if p < call.Pos() {
			n++
		}
	}
	for _, b := range fn.Blocks {
		for _, in := range b.Instrs {
			if in != call && isRangeFuncCall(in) != nil && in.Pos() < call.Pos() {
				n++
			}
		}
	}
	return n
}

func blockPos(b *ssa.BasicBlock) token.Pos {
	best := token.NoPos
	var visit func(bb *ssa.BasicBlock)
	for _, in := range b.Instrs {
		if p := in.Pos(); p.IsValid() && (best == token.NoPos || p < best) {
			best = p
		}
	}
	_ = visit
	if best == token.NoPos {
		for _, s := range b.Succs {
			for _, in := range s.Instrs {
				if p := in.Pos(); p.IsValid() && (best == token.NoPos || p < best) {
					best = p
				}
			}
		}
	}
	return best
}

// ---------------------------------------------------------------- running a body

// runBody symbolically executes fn from its entry with the given state and
// returns one retInfo per return instruction.
func (c *fctx) runBody(fr *frame, entryCond string, st *state) []retInfo {
	fn := fr.fn
	if len(fn.Blocks) == 0 {
		c.errorf("%s: no body", fn)
		return nil
	}
	fr.loops = findLoops(fn)
	fr.entrySt = st.clone()
	isBack := func(from, to *ssa.BasicBlock) bool { return to.Dominates(from) && fr.loops[to] != nil && fr.loops[to].blocks[from] }
	order := rpo(fn, isBack)
	incoming := map[*ssa.BasicBlock][]edge{}
	incoming[fn.Blocks[0]] = []edge{{cond: entryCond, st: st}}
	var rets []retInfo
	// loop specs
	for _, li := range fr.loops {
		if fr.contract != nil {
			li.spec = fr.contract.Loops[li.ordinal]
		}
	}
	for _, li := range fr.loops {
		li.writes = c.loopWriteSet(fr, li)
	}
	for _, b := range order {
		ins := incoming[b]
		if len(ins) == 0 {
			continue // unreachable (e.g. recover block)
		}
		// a latch block (its only successor is the header it jumps back to) reached along several paths is executed once
		// per path instead of once on the merged state: the invariants are then checked path by path, on states without
		// the if-then-else merges of heaps and slices that make a single merged obligation expensive
		if len(ins) > 1 && fr.loops[b] == nil && len(b.Succs) == 1 && isBack(b, b.Succs[0]) && !fr.noSplit {
			for i, e := range ins {
				incoming[b] = []edge{e}
				if fr.top {
					c.curTag = pathTag{blk: b, copy: i + 1}
				}
				c.runBlock(fr, b, incoming, &rets)
			}
			continue
		}
		if fr.top {
			c.curTag = pathTag{blk: b}
		}
		c.runBlock(fr, b, incoming, &rets)
		if len(c.errs) > 40 {
			return rets
		}
	}
	if fr.top {
		c.curTag = pathTag{}
	}
	return rets
}

// runBlock executes one basic block on the merge of its incoming edges.
func (c *fctx) runBlock(fr *frame, b *ssa.BasicBlock, incoming map[*ssa.BasicBlock][]edge, retsp *[]retInfo) {
	fn := fr.fn
	rets := *retsp
	defer func() { *retsp = rets }()
	{
		ins := incoming[b]
		conds := make([]string, len(ins))
		sts := make([]*state, len(ins))
		for i, e := range ins {
			conds[i] = e.cond
			sts[i] = e.st
		}
		fr.cur = b
		reach := c.define("r."+fr.prefix+fmt.Sprint(b.Index), "Bool", or(conds...))
		cur := c.mergeStates(conds, sts)
		li := fr.loops[b]
		// phis
		phiVals := func(edges []edge, into map[ssa.Value]val) {
			for _, in := range b.Instrs {
				phi, ok := in.(*ssa.Phi)
				if !ok {
					break
				}
				vs := make([]val, len(edges))
				for i, e := range edges {
					idx := predIndex(b, e.from)
					vs[i] = c.operand(fr, phi.Edges[idx])
				}
				into[phi] = c.mergeVals(conds, vs, phi.Type(), phi.Comment)
			}
		}
		if li == nil {
			if b != fn.Blocks[0] {
				phiVals(ins, fr.vals)
			}
		} else {
			// loop header: establish invariants with the entry values
			entryVals := map[ssa.Value]val{}
			phiVals(ins, entryVals)
			if li.spec == nil {
				c.errorf("%s: loop %d (at %s) has no invariant/contract", fr.prefix+fn.String(), li.ordinal, c.pos(blockPos(b)))
				li.spec = &spec.LoopSpec{}
			}
			c.checkInvariants(fr, li, reach, cur, entryVals, "established")
			// havoc
			for _, in := range b.Instrs {
				phi, ok := in.(*ssa.Phi)
				if !ok {
					break
				}
				srt := c.S.SortOf(phi.Type())
				v := c.fresh("phi."+fr.prefix+phi.Comment, srt)
				fr.vals[phi] = val{t: v}
				c.assumeFacts(reach, v, phi.Type(), nil)
			}
			var wk []string
			for k := range li.writes {
				wk = append(wk, k)
			}
			sort.Strings(wk)
			preAlloc := c.region(cur, "alloc", "(Array Int Bool)")
			for _, k := range wk {
				srt := c.regionSort(k)
				if srt == "" {
					continue
				}
				pre := c.region(cur, k, srt)
				nh := c.fresh("Hh."+k, srt)
				cur.h[k] = nh
				// frame: cells that existed before the loop and are not rooted at a loop-invariant
				// written root keep their value (all other writes in the loop go to fresh objects)
				if we := li.writes[k]; !we.full && strings.HasPrefix(srt, "(Array Int ") && k != "alloc" {
					guardAlloc := preAlloc
					if we.fresh0 {
						guardAlloc = "alloc0"
					}
					conds := []string{fmt.Sprintf("(select %s x!f)", guardAlloc)}
					okRoots := true
					for _, r := range we.roots {
						rv, ok := fr.vals[r.v]
						if !ok {
							if _, isP := r.v.(*ssa.Parameter); !isP {
								okRoots = false
								break
							}
							rv = c.operand(fr, r.v)
						}
						t := c.termOf(rv, "loop root")
						if r.slice {
							t = "(sbase " + t + ")"
						}
						conds = append(conds, fmt.Sprintf("(not (= x!f %s))", t))
					}
					if okRoots {
						c.assume(fmt.Sprintf("(forall ((x!f Int)) (! (=> %s (= (select %s x!f) (select %s x!f))) :pattern ((select %s x!f))))", and(conds...), nh, pre, nh))
					}
				}
			}
			if li.writes["alloc"] != nil {
				na := c.region(cur, "alloc", "(Array Int Bool)")
				c.assume(fmt.Sprintf("(forall ((x!a Int)) (! (=> (select %s x!a) (select %s x!a)) :pattern ((select %s x!a))))", preAlloc, na, preAlloc))
			}
			// phi facts that need alloc
			for _, in := range b.Instrs {
				phi, ok := in.(*ssa.Phi)
				if !ok {
					break
				}
				c.assumeFacts(reach, fr.vals[phi].t, phi.Type(), cur)
			}
			li.hdrAlloc = c.region(cur, "alloc", "(Array Int Bool)")
			c.assumeInvariants(fr, li, reach, cur)
		}
		// instructions
		term := false
		for _, in := range b.Instrs {
			if _, ok := in.(*ssa.Phi); ok {
				continue
			}
			switch x := in.(type) {
			case *ssa.If:
				cv := c.operand(fr, x.Cond).t
				c.flow(fr, b, b.Succs[0], and(reach, cv), cur, incoming)
				c.flow(fr, b, b.Succs[1], and(reach, not(cv)), cur, incoming)
				term = true
			case *ssa.Jump:
				c.flow(fr, b, b.Succs[0], reach, cur, incoming)
				term = true
			case *ssa.Return:
				var rs []val
				for _, r := range x.Results {
					rs = append(rs, c.operand(fr, r))
				}
				rets = append(rets, retInfo{cond: reach, st: cur, results: rs, pos: x.Pos()})
				term = true
			case *ssa.Panic:
				if ct := c.P.ContractFor(c.fn); ct != nil && ct.MayPanic {
					term = true
					break
				}
				c.addObl(&Obligation{Name: fr.prefix + "safe:no-panic@" + c.lineKey(x.Pos(), fr), Kind: "safety", Guard: reach, Goal: "false", Pos: c.pos(x.Pos()), SrcLine: c.P.SrcLine(x.Pos())})
				term = true
			default:
				c.instr(fr, in, reach, cur)
			}
			if len(c.errs) > 40 {
				return
			}
		}
		_ = term
	}
}

func predIndex(b, from *ssa.BasicBlock) int {
	for i, p := range b.Preds {
		if p == from {
			return i
		}
	}
	return -1
}

// flow records an edge; back edges check invariant preservation instead.
func (c *fctx) flow(fr *frame, from, to *ssa.BasicBlock, cond string, st *state, incoming map[*ssa.BasicBlock][]edge) {
	if li := fr.loops[to]; li != nil && li.blocks[from] && to.Dominates(from) {
		// back edge
		vals := map[ssa.Value]val{}
		idx := predIndex(to, from)
		for _, in := range to.Instrs {
			phi, ok := in.(*ssa.Phi)
			if !ok {
				break
			}
			vals[phi] = c.operand(fr, phi.Edges[idx])
		}
		if li.hdrAlloc != "" {
			// derived fact (memory is never freed in the model): everything allocated at the loop head is still allocated
			now := c.region(st, "alloc", "(Array Int Bool)")
			if now != li.hdrAlloc {
				c.assume(fmt.Sprintf("(forall ((x!a Int)) (! (=> (select %s x!a) (select %s x!a)) :pattern ((select %s x!a)) :pattern ((select %s x!a))))", li.hdrAlloc, now, li.hdrAlloc, now))
			}
		}
		c.checkInvariants(fr, li, cond, st, vals, "preserved")
		return
	}
	incoming[to] = append(incoming[to], edge{cond: cond, st: st.clone(), from: from})
}

func (c *fctx) mergeVals(conds []string, vs []val, t types.Type, hint string) val {
	if len(vs) == 1 {
		return vs[0]
	}
	allSame := true
	for _, v := range vs[1:] {
		if v.t != vs[0].t || v.a != vs[0].a || v.clo != vs[0].clo || len(v.tup) != 0 {
			allSame = false
		}
	}
	if allSame {
		return vs[0]
	}
	for _, v := range vs {
		if v.a != nil || v.clo != nil || v.tup != nil || v.it != nil {
			c.errorf("%s: phi %s merges addresses/closures/tuples (unsupported)", c.fn, hint)
			return val{t: c.S.Zero(t)}
		}
	}
	terms := make([]string, len(vs))
	for i, v := range vs {
		terms[i] = v.t
	}
	srt := c.S.SortOf(t)
	return val{t: c.define("phi."+hint, srt, iteChain(conds, terms))}
}

func (c *fctx) lineKey(p token.Pos, fr *frame) string {
	return c.P.SrcLine(p)
}

// ---------------------------------------------------------------- operands

func (c *fctx) operand(fr *frame, v ssa.Value) val {
	switch x := v.(type) {
	case *ssa.Const:
		return c.constVal(x)
	case *ssa.Global:
		return val{a: &addr{kind: aGlobal, key: "G:" + x.String(), typ: x.Type().(*types.Pointer).Elem()}}
	case *ssa.Function:
		return val{t: c.fnConst(x), clo: &closure{fn: x}}
	case *ssa.Builtin:
		return val{}
	}
	if r, ok := fr.vals[v]; ok {
		return r
	}
	c.errorf("%s: use of undefined SSA value %s (%T)", fr.fn, v.Name(), v)
	return val{t: c.S.Zero(v.Type())}
}

func (c *fctx) fnConst(f *ssa.Function) string {
	name := q("fn." + f.String())
	c.S.declareOnce(fmt.Sprintf("(declare-const %s Fn)", name))
	c.S.declareOnce(fmt.Sprintf("(assert (not (= %s nilFn)))", name))
	return name
}

func (c *fctx) constVal(k *ssa.Const) val {
	t := k.Type()
	if k.Value == nil {
		return val{t: c.S.Zero(t)}
	}
	switch k.Value.Kind() {
	case constant.Bool:
		if constant.BoolVal(k.Value) {
			return val{t: "true"}
		}
		return val{t: "false"}
	case constant.Int:
		s := k.Value.ExactString()
		if strings.HasPrefix(s, "-") {
			return val{t: "(- " + s[1:] + ")"}
		}
		return val{t: s}
	case constant.String:
		return val{t: c.S.StrLit(constant.StringVal(k.Value))}
	case constant.Float:
		name := q("float." + k.Value.ExactString())
		c.S.declareOnce(fmt.Sprintf("(declare-const %s Float)", name))
		return val{t: name}
	}
	c.errorf("unsupported constant %s", k)
	return val{t: c.S.Zero(t)}
}

// termOf forces a value to a plain SMT term (addresses of whole allocations are their refs).
func (c *fctx) termOf(v val, what string) string {
	if v.a != nil {
		if v.a.kind == aElem && len(v.a.path) == 0 && v.a.idx == "" {
			return v.a.ref
		}
		c.errorf("%s: interior pointer escapes (%s) — outside the supported subset", c.fn, what)
		return "0"
	}
	if v.t == "" && v.clo != nil {
		return c.fnConst(v.clo.fn)
	}
	return v.t
}

// ---------------------------------------------------------------- loads / stores

func typeKey(t types.Type) string { return shortType(types.Unalias(t)) }

func (c *fctx) elemKey(et types.Type) string {
	k := "E:" + typeKey(et)
	c.keyTypes[k] = et
	return k
}
func (c *fctx) cellKey(t types.Type) string {
	k := "P:" + typeKey(t)
	c.keyTypes[k] = t
	return k
}

// closedHeapAxioms: the heap at function entry is closed under reachability — every
// pointer, slice or map stored in it refers to memory that was allocated at entry.
func (c *fctx) closedHeapAxioms() []string {
	var keys []string
	for k := range c.regions {
		keys = append(keys, k)
	}
	sort.Strings(keys)
	var out []string
	refFact := func(t types.Type, term string) string {
		switch types.Unalias(t).Underlying().(type) {
		case *types.Pointer, *types.Map, *types.Chan:
			return fmt.Sprintf("(or (= %s 0) (select alloc0 %s))", term, term)
		case *types.Slice:
			return fmt.Sprintf("(or (= (sbase %s) 0) (select alloc0 (sbase %s)))", term, term)
		}
		return ""
	}
	for _, k := range keys {
		h := q("H0." + k)
		var t types.Type
		switch {
		case strings.HasPrefix(k, "F:"):
			for _, si := range c.S.structs {
				for _, f := range si.Fields {
					if k == "F:"+si.Name+"."+f.Name {
						t = f.T
					}
				}
			}
			if t == nil {
				continue
			}
			if f := refFact(t, "(select "+h+" r!h)"); f != "" {
				out = append(out, fmt.Sprintf("(assert (forall ((r!h Int)) (! %s :pattern ((select %s r!h)))))", f, h))
			}
		case strings.HasPrefix(k, "P:"):
			t = c.keyTypes[k]
			if t == nil {
				continue
			}
			if f := refFact(t, "(select "+h+" r!h)"); f != "" {
				out = append(out, fmt.Sprintf("(assert (forall ((r!h Int)) (! %s :pattern ((select %s r!h)))))", f, h))
			}
		case strings.HasPrefix(k, "MH:"):
			// the nil map has no entries
			srt := c.regions[k]
			ks := strings.TrimSuffix(strings.TrimPrefix(srt, "(Array Int (Array "), " Bool))")
			out = append(out, fmt.Sprintf("(assert (forall ((k!h %s)) (! (not (select (select %s 0) k!h)) :pattern ((select (select %s 0) k!h)))))", ks, h, h))
		case strings.HasPrefix(k, "E:"):
			t = c.keyTypes[k]
			if t == nil {
				continue
			}
			if f := refFact(t, "(select (select "+h+" r!h) i!h)"); f != "" {
				out = append(out, fmt.Sprintf("(assert (forall ((r!h Int) (i!h Int)) (! %s :pattern ((select (select %s r!h) i!h)))))", f, h))
			}
		}
	}
	return out
}
func (c *fctx) mapHasKey(mt *types.Map) string { return "MH:" + typeKey(mt) }
func (c *fctx) mapValKey(mt *types.Map) string { return "MV:" + typeKey(mt) }
func (c *fctx) mapLenKey(mt *types.Map) string { return "ML:" + typeKey(mt) }
func (c *fctx) mapHasSort(mt *types.Map) string {
	return "(Array Int (Array " + c.S.SortOf(mt.Key()) + " Bool))"
}
func (c *fctx) mapValSort(mt *types.Map) string {
	return "(Array Int (Array " + c.S.SortOf(mt.Key()) + " " + c.S.SortOf(mt.Elem()) + "))"
}
func (c *fctx) elemSort(elemSort string) string { return "(Array Int (Array Int " + elemSort + "))" }

// addrOfPointer turns a pointer-typed value into an address of its pointee.
func (c *fctx) addrOfPointer(v val, ptrT types.Type) *addr {
	if v.a != nil {
		return v.a
	}
	pt, ok := types.Unalias(ptrT).Underlying().(*types.Pointer)
	if !ok {
		c.errorf("addrOfPointer: not a pointer type %s", ptrT)
		return &addr{kind: aCell, key: "P:Int", ref: "0", typ: types.Typ[types.Int], rootSort: "Int"}
	}
	elem := pt.Elem()
	srt := c.S.SortOf(elem)
	return &addr{kind: aCell, key: c.cellKey(elem), ref: v.t, typ: elem, rootSort: srt}
}

// load reads the value at an address.
func (c *fctx) load(a *addr, st *state) string {
	root := c.loadRoot(a, st)
	for _, p := range a.path {
		root = fmt.Sprintf("(%s %s)", p.si.Fields[p.idx].Acc, root)
	}
	return root
}

func (c *fctx) loadRoot(a *addr, st *state) string {
	switch a.kind {
	case aGlobal:
		return c.region(st, a.key, c.S.SortOf(a.rootType()))
	case aField:
		return fmt.Sprintf("(select %s %s)", c.region(st, a.key, "(Array Int "+a.rootSort+")"), a.ref)
	case aElem:
		return fmt.Sprintf("(select (select %s %s) %s)", c.region(st, a.key, c.elemSort(a.rootSort)), a.ref, a.idx)
	case aCell:
		// whole struct behind a pointer: assemble from field regions
		if si := c.S.StructOf(a.rootType()); si != nil {
			if len(si.Fields) == 0 {
				return si.Ctor
			}
			var fs []string
			for _, f := range si.Fields {
				fs = append(fs, fmt.Sprintf("(select %s %s)", c.region(st, "F:"+si.Name+"."+f.Name, "(Array Int "+f.Sort+")"), a.ref))
			}
			return "(" + si.Ctor + " " + strings.Join(fs, " ") + ")"
		}
		if arr, ok := types.Unalias(a.rootType()).Underlying().(*types.Array); ok {
			es := c.S.SortOf(arr.Elem())
			return fmt.Sprintf("(select %s %s)", c.region(st, c.elemKey(arr.Elem()), c.elemSort(es)), a.ref)
		}
		return fmt.Sprintf("(select %s %s)", c.region(st, a.key, "(Array Int "+a.rootSort+")"), a.ref)
	}
	return "0"
}

// initialRegion reports whether the region an address lives in still is the symbol it had at function entry.
func (c *fctx) initialRegion(a *addr, st *state) bool {
	switch a.kind {
	case aField, aElem:
		_, written := st.h[a.key]
		return !written
	case aCell:
		if c.S.StructOf(a.rootType()) != nil {
			return false
		}
		if _, ok := types.Unalias(a.rootType()).Underlying().(*types.Array); ok {
			return false
		}
		_, written := st.h[a.key]
		return !written
	}
	return false
}

func (a *addr) rootType() types.Type {
	if a.rootT != nil {
		return a.rootT
	}
	return a.typ
}

// store writes v at address a; returns the regions written (key -> root ref) for frame checks.
func (c *fctx) store(a *addr, v string, st *state, guard string, pos token.Pos, fr *frame) {
	// nested path: rebuild the root value
	newRoot := v
	if len(a.path) > 0 {
		newRoot = c.updatePath(c.loadRoot(a, st), a.path, v)
	}
	switch a.kind {
	case aGlobal:
		c.noteWrite(a.key, "", guard, pos, fr, st)
		c.setRegion(st, a.key, c.S.SortOf(a.rootType()), newRoot)
	case aField:
		c.noteWrite(a.key, a.ref, guard, pos, fr, st)
		srt := "(Array Int " + a.rootSort + ")"
		c.setRegion(st, a.key, srt, fmt.Sprintf("(store %s %s %s)", c.region(st, a.key, srt), a.ref, newRoot))
	case aElem:
		c.noteWrite(a.key, a.ref, guard, pos, fr, st)
		srt := c.elemSort(a.rootSort)
		h := c.region(st, a.key, srt)
		c.setRegion(st, a.key, srt, fmt.Sprintf("(store %s %s (store (select %s %s) %s %s))", h, a.ref, h, a.ref, a.idx, newRoot))
	case aCell:
		if si := c.S.StructOf(a.rootType()); si != nil {
			for _, f := range si.Fields {
				key := "F:" + si.Name + "." + f.Name
				srt := "(Array Int " + f.Sort + ")"
				c.noteWrite(key, a.ref, guard, pos, fr, st)
				c.setRegion(st, key, srt, fmt.Sprintf("(store %s %s (%s %s))", c.region(st, key, srt), a.ref, f.Acc, newRoot))
			}
			return
		}
		if arr, ok := types.Unalias(a.rootType()).Underlying().(*types.Array); ok {
			es := c.S.SortOf(arr.Elem())
			key, srt := c.elemKey(arr.Elem()), c.elemSort(es)
			c.noteWrite(key, a.ref, guard, pos, fr, st)
			c.setRegion(st, key, srt, fmt.Sprintf("(store %s %s %s)", c.region(st, key, srt), a.ref, newRoot))
			return
		}
		c.noteWrite(a.key, a.ref, guard, pos, fr, st)
		srt := "(Array Int " + a.rootSort + ")"
		c.setRegion(st, a.key, srt, fmt.Sprintf("(store %s %s %s)", c.region(st, a.key, srt), a.ref, newRoot))
	}
}

func (c *fctx) updatePath(root string, path []pathStep, v string) string {
	if len(path) == 0 {
		return v
	}
	p := path[0]
	var fs []string
	for i, f := range p.si.Fields {
		cur := fmt.Sprintf("(%s %s)", f.Acc, root)
		if i == p.idx {
			fs = append(fs, c.updatePath(cur, path[1:], v))
		} else {
			fs = append(fs, cur)
		}
	}
	return "(" + p.si.Ctor + " " + strings.Join(fs, " ") + ")"
}

// noteWrite is called for every heap write: it checks the loop write-set
// pre-pass and generates frame (assigns) obligations.
func (c *fctx) noteWrite(key, root, guard string, pos token.Pos, fr *frame, st *state) {
	for f := fr; f != nil; f = f.parent {
		for _, li := range f.loops {
			if f.cur != nil && li.blocks[f.cur] && li.writes != nil && li.writes[key] == nil {
				c.errorf("internal: write to region %s inside loop %d of %s is missing from the loop's write set", key, li.ordinal, f.fn)
			}
		}
	}
	if c.assignsOK != nil && !c.modeNoAssigns && !strings.HasPrefix(key, "X:") {
		if goal := c.assignsOK(key, root); goal != "" && goal != "true" {
			name := "assigns@" + c.P.SrcLine(pos)
			if fr != nil {
				name = fr.prefix + name
			}
			c.addObl(&Obligation{Name: name, Kind: "assigns", Guard: guard, Goal: goal, Pos: c.pos(pos), SrcLine: c.P.SrcLine(pos), Tags: c.assignsTags()})
		}
	}
}

func (c *fctx) assignsTags() []string {
	if ct := c.P.ContractFor(c.fn); ct != nil && ct.Assigns != nil {
		return ct.Assigns.Tags
	}
	return nil
}

// allocate returns a fresh reference and marks it allocated.
func (c *fctx) allocate(st *state, guard, hint string) string {
	r := c.fresh("ref."+hint, "Int")
	al := c.region(st, "alloc", "(Array Int Bool)")
	c.assume(fmt.Sprintf("(and (> %s 0) (not (select %s %s)))", r, al, r))
	c.setRegion(st, "alloc", "(Array Int Bool)", fmt.Sprintf("(store %s %s true)", al, r))
	return r
}
