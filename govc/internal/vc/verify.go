package vc

import (
	"go/token"
	"fmt"
	"go/ast"
	"go/types"
	"sort"
	"strings"

	"golang.org/x/tools/go/ssa"

	"govc/internal/spec"
)

// ---------------------------------------------------------------- loop write sets

func (c *fctx) cellKeys(t types.Type) []string {
	if si := c.S.StructOf(t); si != nil {
		var ks []string
		for _, f := range si.Fields {
			k := "F:" + si.Name + "." + f.Name
			c.ensureRegion(k, "(Array Int "+f.Sort+")")
			ks = append(ks, k)
		}
		return ks
	}
	if ar, ok := types.Unalias(t).Underlying().(*types.Array); ok {
		es := c.S.SortOf(ar.Elem())
		c.ensureRegion(c.elemKey(ar.Elem()), c.elemSort(es))
		return []string{c.elemKey(ar.Elem())}
	}
	srt := c.S.SortOf(t)
	c.ensureRegion(c.cellKey(t), "(Array Int "+srt+")")
	return []string{c.cellKey(t)}
}

func (c *fctx) ensureRegion(key, sort string) {
	if key == "alloc" {
		c.regions[key] = sort
		return
	}
	if _, ok := c.regions[key]; !ok {
		c.regions[key] = sort
		c.decls = append(c.decls, fmt.Sprintf("(declare-const %s %s)", q("H0."+key), sort))
	}
}

// wsEntry describes how a loop writes one heap region.
type wsEntry struct {
	full   bool     // written through a root that is neither loop-invariant nor freshly allocated
	roots  []wsRoot // loop-invariant roots written
	fresh0 bool     // written through a loop variable that the invariant declares fresh(...) (not allocated at function entry)
}

type wsRoot struct {
	v     ssa.Value
	slice bool
}

type wsCtx struct {
	out      map[string]*wsEntry
	li       *loopInfo // nil while scanning a callee body
	seen     map[*ssa.Function]bool
	inCallee bool
}

func (w *wsCtx) entry(k string) *wsEntry {
	e := w.out[k]
	if e == nil {
		e = &wsEntry{}
		w.out[k] = e
	}
	return e
}

func (w *wsCtx) full(ks ...string) {
	for _, k := range ks {
		w.entry(k).full = true
	}
}

// add records a write to region k through base value `base` (nil: unknown root).
func (w *wsCtx) add(k string, base ssa.Value, slice bool) {
	e := w.entry(k)
	if base == nil {
		e.full = true
		return
	}
	// an object allocated inside the loop (or inside a callee that runs in the loop) is fresh in every iteration: it cannot
	// be a cell that existed before the loop.  An object allocated BEFORE the loop is such a cell (it is a root like any other).
	insideLoop := func(in ssa.Instruction) bool {
		return w.inCallee || w.li == nil || w.li.blocks[in.Block()]
	}
	switch b := base.(type) {
	case *ssa.Alloc:
		if insideLoop(b) {
			return
		}
	case *ssa.MakeSlice:
		if insideLoop(b) {
			return
		}
	case *ssa.MakeMap:
		if insideLoop(b) {
			return
		}
	case *ssa.Slice:
		if al, ok := b.X.(*ssa.Alloc); ok && insideLoop(al) {
			return
		}
	case *ssa.Convert:
		if isString(b.X.Type()) && insideLoop(b) {
			return // []byte(s) allocates
		}
	}
	if w.inCallee {
		e.full = true
		return
	}
	if phi, ok := base.(*ssa.Phi); ok && w.li != nil && phi.Block() == w.li.header && w.li.freshNames[phi.Comment] {
		e.fresh0 = true
		return
	}
	outside := false
	switch b := base.(type) {
	case *ssa.Parameter, *ssa.FreeVar, *ssa.Const, *ssa.Global, *ssa.Function:
		outside = true
	case ssa.Instruction:
		outside = w.li != nil && !w.li.blocks[b.Block()]
	}
	if !outside {
		e.full = true
		return
	}
	for _, r := range e.roots {
		if r.v == base && r.slice == slice {
			return
		}
	}
	e.roots = append(e.roots, wsRoot{base, slice})
}

// addrRoot returns the region keys and the base (pointer / slice) value of an address expression.
func (c *fctx) addrRoot(v ssa.Value) (keys []string, base ssa.Value, slice bool) {
	switch x := v.(type) {
	case *ssa.FieldAddr:
		switch x.X.(type) {
		case *ssa.FieldAddr, *ssa.IndexAddr, *ssa.Global:
			return c.addrRoot(x.X)
		}
		st := types.Unalias(x.X.Type()).Underlying().(*types.Pointer).Elem()
		si := c.S.StructOf(st)
		if si == nil {
			return nil, nil, false
		}
		f := si.Fields[x.Field]
		k := "F:" + si.Name + "." + f.Name
		c.ensureRegion(k, "(Array Int "+f.Sort+")")
		return []string{k}, x.X, false
	case *ssa.IndexAddr:
		var et types.Type
		isSlice := false
		switch t := types.Unalias(x.X.Type()).Underlying().(type) {
		case *types.Slice:
			et = t.Elem()
			isSlice = true
		case *types.Pointer:
			et = types.Unalias(t.Elem()).Underlying().(*types.Array).Elem()
		}
		es := c.S.SortOf(et)
		c.ensureRegion(c.elemKey(et), c.elemSort(es))
		return []string{c.elemKey(et)}, x.X, isSlice
	case *ssa.Global:
		k := "G:" + x.String()
		c.ensureRegion(k, c.S.SortOf(x.Type().(*types.Pointer).Elem()))
		return []string{k}, nil, false
	}
	if pt, ok := types.Unalias(v.Type()).Underlying().(*types.Pointer); ok {
		return c.cellKeys(pt.Elem()), v, false
	}
	return nil, nil, false
}

func (c *fctx) mapKeys(mt *types.Map) []string {
	c.ensureRegion(c.mapHasKey(mt), c.mapHasSort(mt))
	c.ensureRegion(c.mapValKey(mt), c.mapValSort(mt))
	c.ensureRegion(c.mapLenKey(mt), "(Array Int Int)")
	return []string{c.mapHasKey(mt), c.mapValKey(mt), c.mapLenKey(mt)}
}

// instrWrites is the conservative syntactic write set of one instruction.
func (c *fctx) instrWrites(fn *ssa.Function, in ssa.Instruction, w *wsCtx, depth int) {
	switch x := in.(type) {
	case *ssa.Store:
		ks, base, sl := c.addrRoot(x.Addr)
		for _, k := range ks {
			w.add(k, base, sl)
		}
	case *ssa.MapUpdate:
		for _, k := range c.mapKeys(x.Map.Type().Underlying().(*types.Map)) {
			w.add(k, x.Map, false)
		}
	case *ssa.Alloc:
		w.full("alloc")
		for _, k := range c.cellKeys(x.Type().(*types.Pointer).Elem()) {
			w.add(k, x, false)
		}
	case *ssa.MakeSlice:
		et := x.Type().Underlying().(*types.Slice).Elem()
		es := c.S.SortOf(et)
		c.ensureRegion(c.elemKey(et), c.elemSort(es))
		w.full("alloc")
		w.add(c.elemKey(et), x, true)
	case *ssa.MakeMap:
		w.full("alloc")
		for _, k := range c.mapKeys(x.Type().Underlying().(*types.Map)) {
			w.add(k, x, false)
		}
	case *ssa.Convert:
		if isString(x.X.Type()) {
			if sl, ok := types.Unalias(x.Type()).Underlying().(*types.Slice); ok {
				c.ensureRegion(c.elemKey(sl.Elem()), c.elemSort("Int"))
				w.full("alloc")
				w.add(c.elemKey(sl.Elem()), x, true)
			}
		}
	case *ssa.Range:
		if mt, ok := types.Unalias(x.X.Type()).Underlying().(*types.Map); ok {
			k := "X:seen:" + typeKey(mt)
			c.ensureRegion(k, "(Array Int (Array "+c.S.SortOf(mt.Key())+" Bool))")
			w.full(k)
		}
	case *ssa.Next:
		if r, ok := x.Iter.(*ssa.Range); ok {
			if mt, ok := types.Unalias(r.X.Type()).Underlying().(*types.Map); ok {
				k := "X:seen:" + typeKey(mt)
				c.ensureRegion(k, "(Array Int (Array "+c.S.SortOf(mt.Key())+" Bool))")
				w.full(k)
			}
		}
	case *ssa.RunDefers:
		for _, b := range fn.Blocks {
			for _, i2 := range b.Instrs {
				if d, ok := i2.(*ssa.Defer); ok {
					c.callWrites(fn, d.Common(), w, depth)
				}
			}
		}
	case *ssa.Call:
		c.callWrites(fn, x.Common(), w, depth)
	}
}

func (c *fctx) callWrites(fn *ssa.Function, cm *ssa.CallCommon, w *wsCtx, depth int) {
	if b, ok := cm.Value.(*ssa.Builtin); ok {
		switch b.Name() {
		case "append", "copy":
			et := types.Unalias(cm.Args[0].Type()).Underlying().(*types.Slice).Elem()
			es := c.S.SortOf(et)
			c.ensureRegion(c.elemKey(et), c.elemSort(es))
			if b.Name() == "append" {
				w.full("alloc")
				// in place (existing backing array) or fresh
				w.add(c.elemKey(et), cm.Args[0], true)
			} else {
				w.add(c.elemKey(et), cm.Args[0], true)
			}
		case "delete":
			for _, k := range c.mapKeys(types.Unalias(cm.Args[0].Type()).Underlying().(*types.Map)) {
				w.add(k, cm.Args[0], false)
			}
		}
		return
	}
	// closures passed as arguments may be called by the callee
	scanFn := func(f *ssa.Function) {
		if f == nil || w.seen[f] || depth > maxInlineDepth+2 {
			return
		}
		w.seen[f] = true
		save := w.inCallee
		w.inCallee = true
		for _, b := range f.Blocks {
			for _, in := range b.Instrs {
				c.instrWrites(f, in, w, depth+1)
			}
		}
		w.inCallee = save
	}
	for _, a := range cm.Args {
		switch av := a.(type) {
		case *ssa.MakeClosure:
			scanFn(av.Fn.(*ssa.Function))
		case *ssa.Function:
			scanFn(av)
		}
	}
	var ct *spec.FuncContract
	var callee *ssa.Function
	if cm.IsInvoke() {
		key := "(" + types.Unalias(cm.Value.Type()).String() + ")." + cm.Method.Name()
		ct = c.P.Contracts[key]
	} else {
		callee = cm.StaticCallee()
		if callee == nil {
			if mc, ok := cm.Value.(*ssa.MakeClosure); ok {
				scanFn(mc.Fn.(*ssa.Function))
			}
			ct = c.P.Contracts["functype "+types.Unalias(cm.Value.Type()).String()]
			if ct == nil {
				return
			}
		} else {
			ct = c.P.ContractFor(callee)
		}
	}
	if ct != nil && (callee == nil || !ct.Inline) {
		w.full("alloc")
		if ct.Assigns != nil && !ct.Assigns.Nothing {
			if ct.Assigns.Any {
				w.full("*")
				return
			}
			e := c.specEnv(ct, nil, &state{h: map[string]string{}}, &state{h: map[string]string{}})
			var sig *types.Signature
			if callee != nil {
				sig = callee.Signature
			} else if cm.IsInvoke() {
				sig = cm.Method.Type().(*types.Signature)
			} else {
				sig = cm.Signature()
			}
			pn, _ := contractNames(ct, callee, sig, cm.IsInvoke())
			pt := c.paramTypes(callee, sig, cm.IsInvoke(), types.NewInterfaceType(nil, nil))
			for i, n := range pn {
				if i < len(pt) {
					e.vars[n] = sval{t: "0", sort: c.S.SortOf(pt[i]), gt: pt[i]}
					if e.vars[n].sort == "Slice" {
						e.vars[n] = sval{t: "nilSlice", sort: "Slice", gt: pt[i]}
					}
				}
			}
			for _, loc := range ct.Assigns.Locs {
				for _, lw := range c.locWrites(e, loc) {
					c.ensureRegion(lw.key, lw.sort)
					w.full(lw.key)
				}
			}
		}
		return
	}
	scanFn(callee)
}

func (c *fctx) loopWriteSet(fr *frame, li *loopInfo) map[string]*wsEntry {
	li.freshNames = map[string]bool{}
	if li.spec != nil {
		var conj func(x spec.Expr)
		conj = func(x spec.Expr) {
			switch y := x.(type) {
			case *spec.Binary:
				if y.Op == "&&" {
					conj(y.X)
					conj(y.Y)
				}
			case *spec.Call:
				if id, ok := y.Fun.(*spec.Ident); ok && id.Name == "fresh" && len(y.Args) == 1 {
					if a, ok := y.Args[0].(*spec.Ident); ok {
						li.freshNames[a.Name] = true
					}
				}
			}
		}
		for _, inv := range li.spec.Invariants {
			conj(inv.E)
		}
	}
	w := &wsCtx{out: map[string]*wsEntry{}, li: li, seen: map[*ssa.Function]bool{}}
	for b := range li.blocks {
		for _, in := range b.Instrs {
			c.instrWrites(fr.fn, in, w, 0)
		}
	}
	if w.out["*"] != nil {
		c.errorf("%s: loop %d calls a function that 'assigns anything' (unsupported inside loops)", fr.fn, li.ordinal)
	}
	return w.out
}

// ---------------------------------------------------------------- variable lookup for invariants

// lookupVar finds the SSA value (or address) of source variable `name` that reaches the head of block at.
func (c *fctx) lookupVar(fr *frame, name string, at *ssa.BasicBlock, phiOverride map[ssa.Value]val) (val, types.Type, bool) {
	fn := fr.fn
	for _, p := range fn.Params {
		if p.Name() == name {
			// parameters may be reassigned; a phi or debug ref takes precedence below
			defer func() {}()
		}
	}
	// header phis first
	for _, in := range at.Instrs {
		phi, ok := in.(*ssa.Phi)
		if !ok {
			break
		}
		if phi.Comment == name {
			if v, ok := phiOverride[phi]; ok {
				return v, phi.Type(), true
			}
			return fr.vals[phi], phi.Type(), true
		}
	}
	if fr.rfAt != nil {
		// variables captured by the yield closure live in heap cells (ssa.Alloc with the variable's name):
		// the cell, not the value it was initialised with, is the variable
		for b := at; b != nil; b = b.Idom() {
			for _, in := range b.Instrs {
				if in == fr.rfAt {
					break
				}
				if al, ok := in.(*ssa.Alloc); ok && al.Comment == name && al.Heap {
					if v, ok := fr.vals[al]; ok {
						if v.a != nil {
							return v, al.Type(), true
						}
						return val{a: c.addrOfPointer(v, al.Type())}, al.Type().(*types.Pointer).Elem(), true
					}
				}
			}
		}
	}
	// a variable that lives in a cell (address-taken or captured: ssa.Alloc named after it) is the content of that cell;
	// the DebugRef of its definition names only the initial value
	for b := at.Idom(); b != nil; b = b.Idom() {
		for _, in := range b.Instrs {
			if al, ok := in.(*ssa.Alloc); ok && al.Comment == name {
				if v, ok := fr.vals[al]; ok {
					if v.a != nil {
						return v, al.Type(), true
					}
					return val{a: c.addrOfPointer(v, al.Type())}, al.Type().(*types.Pointer).Elem(), true
				}
			}
		}
	}
	start := at.Idom()
	if fr.rfAt != nil && fr.rfAt.Block() == at {
		start = at // range-over-func site: the variables live in the block of the call, before it
	}
	for b := start; b != nil; b = b.Idom() {
		for i := len(b.Instrs) - 1; i >= 0; i-- {
			if b == at && fr.rfAt != nil {
				// skip the call and everything after it
				skip := false
				for j := 0; j <= i; j++ {
					if b.Instrs[j] == fr.rfAt {
						skip = true
					}
				}
				if skip {
					continue
				}
			}
			switch x := b.Instrs[i].(type) {
			case *ssa.DebugRef:
				if id, ok := x.Expr.(*ast.Ident); ok && id.Name == name {
					if x.IsAddr {
						if v, ok := fr.vals[x.X]; ok {
							return v, x.X.Type(), true
						}
						continue
					}
					if _, isConst := x.X.(*ssa.Const); isConst {
						return c.operand(fr, x.X), x.X.Type(), true
					}
					if v, ok := fr.vals[x.X]; ok {
						return v, x.X.Type(), true
					}
					if _, isP := x.X.(*ssa.Parameter); isP {
						return c.operand(fr, x.X), x.X.Type(), true
					}
				}
			case *ssa.Phi:
				if x.Comment == name {
					if v, ok := fr.vals[x]; ok {
						return v, x.Type(), true
					}
				}
			case *ssa.Alloc:
				if x.Comment == name {
					if v, ok := fr.vals[x]; ok {
						return v, x.Type(), true
					}
				}
			}
		}
	}
	for _, p := range fn.Params {
		if p.Name() == name {
			return fr.vals[p], p.Type(), true
		}
	}
	for _, fv := range fn.FreeVars {
		if fv.Name() == name {
			// a captured variable is the content of its cell
			v := fr.vals[fv]
			if pt, ok := fv.Type().(*types.Pointer); ok {
				if v.a != nil {
					return v, fv.Type(), true
				}
				return val{a: c.addrOfPointer(v, fv.Type())}, pt.Elem(), true
			}
			return v, fv.Type(), true
		}
	}
	return val{}, nil, false
}

// loopEnv builds the spec environment for the invariants of a loop.
func (c *fctx) loopEnv(fr *frame, li *loopInfo, st *state, phiOverride map[ssa.Value]val) *env {
	ct := fr.contract
	var pkg *types.Package
	if fr.fn.Pkg != nil {
		pkg = fr.fn.Pkg.Pkg
	} else if fr.fn.Parent() != nil && fr.fn.Parent().Pkg != nil {
		pkg = fr.fn.Parent().Pkg.Pkg
	}
	e := &env{c: c, vars: map[string]sval{}, lazy: map[string]func() sval{}, st: st, old: fr.entrySt, pkg: pkg}
	if ct != nil {
		e.file = c.P.FileOfPkg[ct.File]
	}
	// k: completed iterations of a range loop
	for _, in := range li.header.Instrs {
		phi, ok := in.(*ssa.Phi)
		if !ok {
			break
		}
		if phi.Comment == "rangeindex" {
			v := fr.vals[phi]
			if o, ok := phiOverride[phi]; ok {
				v = o
			}
			e.vars["k"] = sval{t: fmt.Sprintf("(+ %s 1)", v.t), sort: "Int", gt: types.Typ[types.Int]}
			// ranged: the slice / string a `for ... range X` loop iterates over (X need not have a name)
			for _, ref := range *phi.Referrers() {
				bin, ok := ref.(*ssa.BinOp)
				if !ok || bin.Op != token.ADD {
					continue
				}
				for _, r2 := range *bin.Referrers() {
					var x ssa.Value
					switch ia := r2.(type) {
					case *ssa.IndexAddr:
						if ia.Index == ssa.Value(bin) {
							x = ia.X
						}
					case *ssa.Index:
						if ia.Index == ssa.Value(bin) {
							x = ia.X
						}
					}
					if x != nil {
						if xv, ok := fr.vals[x]; ok && xv.t != "" {
							e.vars["ranged"] = sval{t: xv.t, sort: c.S.SortOf(x.Type()), gt: x.Type()}
						} else if _, isP := x.(*ssa.Parameter); isP {
							xv := c.operand(fr, x)
							e.vars["ranged"] = sval{t: xv.t, sort: c.S.SortOf(x.Type()), gt: x.Type()}
						}
					}
				}
			}
		}
	}
	for k, v := range li.extra {
		e.vars[k] = v
	}
	// all names are resolved lazily through lookupVar
	names := map[string]bool{}
	var collect func(x spec.Expr)
	collect = func(x spec.Expr) {
		switch x := x.(type) {
		case *spec.Ident:
			names[x.Name] = true
		case *spec.Unary:
			collect(x.X)
		case *spec.Binary:
			collect(x.X)
			collect(x.Y)
		case *spec.Cond:
			collect(x.C)
			collect(x.A)
			collect(x.B)
		case *spec.Call:
			for _, a := range x.Args {
				collect(a)
			}
		case *spec.Index:
			collect(x.X)
			collect(x.I)
		case *spec.SliceE:
			collect(x.X)
			if x.Lo != nil {
				collect(x.Lo)
			}
			if x.Hi != nil {
				collect(x.Hi)
			}
		case *spec.Select:
			collect(x.X)
		case *spec.Quant:
			collect(x.Body)
		case *spec.Old:
			collect(x.X)
		case *spec.TypeIs:
			collect(x.X)
		case *spec.Cast:
			collect(x.X)
		case *spec.Let:
			collect(x.Val)
			collect(x.Body)
		}
	}
	if li.spec != nil {
		for _, inv := range li.spec.Invariants {
			collect(inv.E)
		}
		for _, d := range li.spec.Decreases {
			collect(d)
		}
	}
	for n := range names {
		if _, ok := e.vars[n]; ok {
			continue
		}
		if strings.HasPrefix(n, "&") {
			// the address of a local that lives in a cell: the dominating ssa.Alloc named after it
			for b := li.header.Idom(); b != nil; b = b.Idom() {
				for _, in := range b.Instrs {
					if al, ok := in.(*ssa.Alloc); ok && al.Comment == n[1:] {
						if v, ok := fr.vals[al]; ok && v.a == nil {
							e.vars[n] = sval{t: c.termOf(v, "address of local"), sort: c.S.SortOf(al.Type()), gt: al.Type()}
						}
					}
				}
			}
			continue
		}
		v, t, ok := c.lookupVar(fr, n, li.header, phiOverride)
		if !ok {
			continue
		}
		e.vars[n] = c.svalOfVar(v, t, st)
	}
	return e
}

// svalOfVar converts an SSA value bound to a source variable into a spec value
// (address-taken locals are dereferenced in the given state).
func (c *fctx) svalOfVar(v val, t types.Type, st *state) sval {
	if v.a != nil {
		return sval{t: c.load(v.a, st), sort: c.S.SortOf(v.a.typ), gt: v.a.typ}
	}
	return sval{t: c.termOf(v, "spec variable"), sort: c.S.SortOf(t), gt: t}
}

func (c *fctx) checkInvariants(fr *frame, li *loopInfo, guard string, st *state, phiVals map[ssa.Value]val, which string) {
	if li.spec == nil {
		return
	}
	e := c.loopEnv(fr, li, st, phiVals)
	for i, inv := range li.spec.Invariants {
		g := e.tr(inv.E)
		lbl := fmt.Sprint(i)
		if inv.Label != "" {
			lbl = inv.Label
		}
		c.addObl(&Obligation{Name: fmt.Sprintf("%sloop%d/invariant#%s/%s", fr.prefix, li.ordinal, lbl, which), Kind: "invariant-" + which, Guard: guard, Goal: g.t, Clause: inv.Src, Pos: c.pos(blockPos(li.header)), Tags: inv.Tags})
	}
	if which == "preserved" && len(li.spec.Decreases) > 0 {
		var now []string
		for _, d := range li.spec.Decreases {
			now = append(now, e.tr(d).t)
		}
		// lexicographic decrease, each component bounded below by 0 when it decreases
		var alts []string
		for i := range now {
			var cs []string
			for j := 0; j < i; j++ {
				cs = append(cs, fmt.Sprintf("(= %s %s)", now[j], li.decr0[j]))
			}
			cs = append(cs, fmt.Sprintf("(< %s %s)", now[i], li.decr0[i]), fmt.Sprintf("(>= %s 0)", li.decr0[i]))
			alts = append(alts, and(cs...))
		}
		c.addObl(&Obligation{Name: fmt.Sprintf("%sloop%d/decreases", fr.prefix, li.ordinal), Kind: "decreases", Guard: guard, Goal: or(alts...), Pos: c.pos(blockPos(li.header))})
	}
}

func (c *fctx) assumeInvariants(fr *frame, li *loopInfo, guard string, st *state) {
	if li.spec == nil {
		return
	}
	e := c.loopEnv(fr, li, st, nil)
	for _, inv := range li.spec.Invariants {
		g := e.tr(inv.E)
		c.assume(implies(guard, g.t))
	}
	li.decr0 = nil
	for _, d := range li.spec.Decreases {
		li.decr0 = append(li.decr0, c.define("decr0", "Int", e.tr(d).t))
	}
}

// ---------------------------------------------------------------- verifying one function

// Result of generating the VCs of one function.
type FuncVC struct {
	Fn       string
	Obls     []*Obligation
	Errors   []string
	Used     []string // contracts / assumptions relied upon
	Contract *spec.FuncContract
}

func (p *Prog) newCtx(fn *ssa.Function) *fctx {
	return &fctx{P: p, S: NewSorts(), fn: fn, regions: map[string]string{}, keyTypes: map[string]types.Type{}, used: map[string]bool{}, pureDef: map[string]bool{}, nameCnt: map[string]int{}, ifaceSeen: map[string]types.Type{}}
}

// VerifyFunc generates all proof obligations of fn against its contract.
func (p *Prog) VerifyFunc(fn *ssa.Function) *FuncVC {
	c := p.newCtx(fn)
	ct := p.ContractFor(fn)
	if ct == nil {
		ct = &spec.FuncContract{Key: fn.String(), Loops: map[int]*spec.LoopSpec{}}
	}
	out := &FuncVC{Fn: fn.String(), Contract: ct}
	defer func() {
		if r := recover(); r != nil {
			out.Errors = append(out.Errors, fmt.Sprintf("generator panic: %v", r))
		}
	}()
	fr := &frame{fn: fn, vals: map[ssa.Value]val{}, top: true, contract: ct}
	st := &state{h: map[string]string{}}
	var pkg *types.Package
	if fn.Pkg != nil {
		pkg = fn.Pkg.Pkg
	} else if fn.Parent() != nil && fn.Parent().Pkg != nil {
		pkg = fn.Parent().Pkg.Pkg
	}
	e := c.specEnv(ct, pkg, st, st)
	pnames, rnames := contractNames(ct, fn, fn.Signature, false)
	for i, prm := range fn.Params {
		srt := c.S.SortOf(prm.Type())
		name := q("p." + prm.Name())
		c.decls = append(c.decls, fmt.Sprintf("(declare-const %s %s)", name, srt))
		fr.vals[prm] = val{t: name}
		c.assumeFacts("true", name, prm.Type(), st)
		n := prm.Name()
		if i < len(pnames) {
			n = pnames[i]
		}
		e.vars[n] = sval{t: name, sort: srt, gt: prm.Type()}
		c.inputs = append(c.inputs, name)
	}
	for _, fv := range fn.FreeVars {
		srt := "Int"
		name := q("fv." + fv.Name())
		c.decls = append(c.decls, fmt.Sprintf("(declare-const %s %s)", name, srt))
		fr.vals[fv] = val{t: name}
		c.assume(fmt.Sprintf("(and (> %s 0) (select alloc0 %s))", name, name))
		pt := fv.Type().(*types.Pointer)
		a := c.addrOfPointer(val{t: name}, fv.Type())
		fvName := fv.Name()
		_ = pt
		e.lazyInit()
		e.lazy[fvName] = func() sval {
			return sval{t: c.load(a, e.st), sort: c.S.SortOf(a.typ), gt: a.typ}
		}
	}
	entry := st.clone()
	for _, r := range ct.Requires {
		c.assume(e.tr(r.E).t)
	}
	for _, gv := range ct.Given {
		c.assume(e.tr(gv.E).t)
		c.used["definition:"+shortFn(fn.String())+": "+gv.Src] = true
	}
	for _, d := range ct.Decr {
		c.fnDecr0 = append(c.fnDecr0, c.define("fdecr0", "Int", e.tr(d).t))
	}
	c.ghostFrameCheck(ct, fn.String())
	// frame condition
	c.setupAssigns(ct, e)
	for _, ln := range ct.Uses {
		c.useLemma(ln)
	}
	rets := c.runBody(fr, "true", st)
	// postconditions
	var retConds []string
	for ri, r := range rets {
		retConds = append(retConds, r.cond)
		re := *e
		re.vars = map[string]sval{}
		for k, v := range e.vars {
			re.vars[k] = v
		}
		re.st = r.st
		re.old = entry
		rs := fn.Signature.Results()
		for i := 0; i < rs.Len() && i < len(r.results); i++ {
			t := rs.At(i).Type()
			re.vars[rnames[i]] = sval{t: c.termOf(r.results[i], "result"), sort: c.S.SortOf(t), gt: t}
			if _, taken := re.vars[resultAlias(i, rs.Len())]; !taken {
				re.vars[resultAlias(i, rs.Len())] = re.vars[rnames[i]]
			}
		}
		if c.rfErrsFinal != "" {
			// number of yields of the function's range-over-func loop that carried a non-nil error
			re.vars["yielderrs"] = sval{t: c.rfErrsFinal, sort: "Int", gt: types.Typ[types.Int]}
		}
		for _, gv := range ct.RetGiven {
			c.assume(implies(r.cond, re.tr(gv.E).t))
			c.used["definition:"+shortFn(fn.String())+": (at return) "+gv.Src] = true
		}
		for i, en := range ct.Ensures {
			g := re.tr(en.E)
			lbl := fmt.Sprint(i)
			if en.Label != "" {
				lbl = en.Label
			}
			var extra []string
			for _, u := range en.Uses {
				if strings.Contains(u, ".") {
					if fs, ok := c.quiet[u]; ok {
						extra = append(extra, fs...)
					}
					continue
				}
				if lm := c.P.Lemmas[u]; lm != nil {
					extra = append(extra, c.lemmaFormula(lm))
					if lm.Axiom {
						c.used["axiom:"+u] = true
					} else {
						c.used["lemma:"+u] = true
					}
				} else {
					c.errorf("unknown lemma %s", u)
				}
			}
			c.addObl(&Obligation{Name: fmt.Sprintf("ensures#%s@ret%d", lbl, ri), Kind: "ensures", Tags: en.Tags, Guard: r.cond, Goal: g.t, Clause: en.Src, Pos: c.pos(r.pos), SrcLine: c.P.SrcLine(r.pos), Extra: extra})
		}
	}
	// per-return canaries (thorough tier; diagnostic): a return that is unreachable under the accumulated assumptions is either
	// dead code or the sign of contradictory contracts on the path leading to it
	for ri, r := range rets {
		c.addObl(&Obligation{Name: fmt.Sprintf("vacuity:reachable@ret%d", ri), Kind: "vacuity-ret", Guard: r.cond, Goal: "false", ExpectSat: true, SrcLine: c.P.SrcLine(r.pos)})
	}
	// vacuity canary: some return must be reachable under all assumptions
	if len(retConds) > 0 {
		c.addObl(&Obligation{Name: "vacuity:return-reachable", Kind: "vacuity", Guard: or(retConds...), Goal: "false", ExpectSat: true})
	}
	// interface refinement and stream invariants (methods called repeatedly by dependencies)
	if ct.Implements != "" || len(ct.Stream) > 0 {
		c.verifyStream(fr, ct, e, entry, rets)
	}
	// dynamic-type facts for interface assertions
	var ifs []types.Type
	var iks []string
	for k := range c.ifaceSeen {
		iks = append(iks, k)
	}
	sort.Strings(iks)
	for _, k := range iks {
		ifs = append(ifs, c.ifaceSeen[k])
	}
	c.S.decls = append(c.S.decls, c.S.ImplFacts(ifs)...)
	out.Obls = c.obls
	out.Errors = c.errs
	for k := range c.used {
		out.Used = append(out.Used, k)
	}
	sort.Strings(out.Used)
	return out
}

func (e *env) lazyInit() {
	if e.lazy == nil {
		e.lazy = map[string]func() sval{}
	}
}

// setupAssigns installs the frame check: every write must hit memory that was
// not allocated on entry, or a location listed in the assigns clause.
func (c *fctx) setupAssigns(ct *spec.FuncContract, e *env) {
	as := ct.Assigns
	if as != nil && as.Any {
		return
	}
	type allowed struct{ key, root string }
	var allow []allowed
	if as != nil {
		for _, loc := range as.Locs {
			for _, w := range c.locWrites(e, loc) {
				allow = append(allow, allowed{w.key, w.root})
			}
		}
	}
	c.assignsOK = func(key, root string) string {
		if strings.HasPrefix(key, "G:") {
			for _, a := range allow {
				if a.key == key {
					return "true"
				}
			}
			return "false"
		}
		if root == "" {
			return "false"
		}
		alts := []string{fmt.Sprintf("(not (select alloc0 %s))", root)}
		for _, a := range allow {
			if a.key == key {
				if a.root == "" {
					return "true"
				}
				alts = append(alts, fmt.Sprintf("(= %s %s)", root, a.root))
			}
		}
		return or(alts...)
	}
}

func (c *fctx) useLemma(name string) {
	lm := c.P.Lemmas[name]
	if lm == nil {
		c.errorf("unknown lemma %s", name)
		return
	}
	if lm.Axiom {
		c.used["axiom:"+name] = true
	} else {
		c.used["lemma:"+name] = true
	}
	t := c.lemmaFormula(lm)
	c.assumeGlobal(t)
}

func (c *fctx) lemmaFormula(lm *spec.Lemma) string {
	file := c.P.FileOfPkg[lm.File]
	e := &env{c: c, vars: map[string]sval{}, file: file}
	if tp := c.P.TypesPkgs[lm.Pkg]; tp != nil {
		e.pkg = tp
	}
	var bs []string
	for _, p := range lm.Params {
		gt, srt, err := c.P.ResolveType(p.Type, file, c.S)
		if err != nil {
			c.errorf("lemma %s: %v", lm.Name, err)
			return "true"
		}
		n := q("l." + p.Name)
		e.vars[p.Name] = sval{t: n, sort: srt, gt: gt}
		bs = append(bs, fmt.Sprintf("(%s %s)", n, srt))
	}
	body := e.tr(lm.Body).t
	if len(bs) == 0 {
		return body
	}
	if len(lm.Triggers) > 0 {
		var pats []string
		for _, tr := range lm.Triggers {
			var ts []string
			for _, te := range tr {
				ts = append(ts, e.tr(te).t)
			}
			pats = append(pats, ":pattern ("+strings.Join(ts, " ")+")")
		}
		body = fmt.Sprintf("(! %s %s)", body, strings.Join(pats, " "))
	}
	return fmt.Sprintf("(forall (%s) %s)", strings.Join(bs, " "), body)
}

// VerifyLemma generates the obligation(s) of a lemma.
func (p *Prog) VerifyLemma(lm *spec.Lemma) *FuncVC {
	c := p.newCtx(nil)
	out := &FuncVC{Fn: "lemma " + lm.Name}
	defer func() {
		if r := recover(); r != nil {
			out.Errors = append(out.Errors, fmt.Sprintf("generator panic: %v", r))
		}
	}()
	file := p.FileOfPkg[lm.File]
	e := &env{c: c, vars: map[string]sval{}, file: file}
	if tp := p.TypesPkgs[lm.Pkg]; tp != nil {
		e.pkg = tp
	}
	type pr struct {
		name, sort string
		gt        types.Type
	}
	var ps []pr
	for _, prm := range lm.Params {
		gt, srt, err := p.ResolveType(prm.Type, file, c.S)
		if err != nil {
			out.Errors = append(out.Errors, err.Error())
			return out
		}
		n := q("l." + prm.Name)
		c.decls = append(c.decls, fmt.Sprintf("(declare-const %s %s)", n, srt))
		e.vars[prm.Name] = sval{t: n, sort: srt, gt: gt}
		ps = append(ps, pr{prm.Name, srt, gt})
		c.inputs = append(c.inputs, n)
		if gt != nil {
			c.assumeFacts("true", n, gt, nil)
		}
	}
	for _, u := range lm.Uses {
		c.useLemma(u)
	}
	if lm.Induction != nil {
		// induction hypothesis: the statement holds for all parameter values with a smaller, non-negative measure
		he := &env{c: c, vars: map[string]sval{}, file: file, pkg: e.pkg}
		var bs []string
		for _, x := range ps {
			n := q("ih." + x.name)
			he.vars[x.name] = sval{t: n, sort: x.sort, gt: x.gt}
			bs = append(bs, fmt.Sprintf("(%s %s)", n, x.sort))
		}
		m0 := e.tr(lm.Induction).t
		m1 := he.tr(lm.Induction).t
		body := he.tr(lm.Body).t
		c.assume(fmt.Sprintf("(forall (%s) (=> (and (<= 0 %s) (< %s %s)) %s))", strings.Join(bs, " "), m1, m1, m0, body))
		// when the measure is one of the parameters, also state the instance "same arguments, measure minus one" outright
		// (the quantified hypothesis has no pattern and solvers often do not find this instance by themselves)
		if id, ok := lm.Induction.(*spec.Ident); ok {
			if v, isP := e.vars[id.Name]; isP && v.sort == "Int" {
				pe := &env{c: c, vars: map[string]sval{}, file: file, pkg: e.pkg}
				for k, x := range e.vars {
					pe.vars[k] = x
				}
				pe.vars[id.Name] = sval{t: fmt.Sprintf("(- %s 1)", v.t), sort: "Int", gt: v.gt}
				c.assume(fmt.Sprintf("(=> (<= 1 %s) %s)", v.t, pe.tr(lm.Body).t))
			}
		}
	}
	g := e.tr(lm.Body)
	name := "lemma:" + lm.Name
	c.fn = nil
	o := &Obligation{Name: name, Kind: "lemma", Tags: lm.Tags, Guard: "true", Goal: g.t, Clause: lm.Body.String()}
	o.nAssume = len(c.assumes)
	o.ctx = c
	o.Func = "lemma " + lm.Name
	c.obls = append(c.obls, o)
	out.Obls = c.obls
	out.Errors = c.errs
	for k := range c.used {
		out.Used = append(out.Used, k)
	}
	sort.Strings(out.Used)
	return out
}

// relevant: path slicing of the assumptions.  A fact generated while block X was executed is kept for an obligation
// generated in block B when X lies on some path to B (ignoring back edges: the loop head's havoc separates iterations), or
// when either has no block (facts and obligations stated before or after the body).  A latch block executed once per
// incoming path keeps only its own copy.  Leaving assumptions out is always sound; the facts left out are guarded by the
// reachability of blocks that do not lead to B, so they say nothing about the paths the obligation quantifies over.
func (c *fctx) relevant(a, o pathTag) bool {
	if a.blk == nil || o.blk == nil {
		return true
	}
	if a.blk == o.blk {
		return a.copy == o.copy
	}
	if a.blk.Parent() != o.blk.Parent() {
		return true
	}
	c.dagMu.Lock()
	defer c.dagMu.Unlock()
	if c.dagReach == nil {
		c.dagReach = map[*ssa.BasicBlock]map[*ssa.BasicBlock]bool{}
	}
	r, ok := c.dagReach[a.blk]
	if !ok {
		r = map[*ssa.BasicBlock]bool{}
		var dfs func(b *ssa.BasicBlock)
		dfs = func(b *ssa.BasicBlock) {
			for _, s := range b.Succs {
				if s.Dominates(b) || r[s] {
					continue // back edge, or seen
				}
				r[s] = true
				dfs(s)
			}
		}
		dfs(a.blk)
		c.dagReach[a.blk] = r
	}
	return r[o.blk]
}

// Query renders the SMT-LIB query of an obligation.
func (o *Obligation) Query(prelude string) string {
	c := o.ctx
	var b strings.Builder
	b.WriteString(prelude)
	for _, d := range c.S.decls {
		if d != "" {
			b.WriteString(d)
			b.WriteString("\n")
		}
	}
	for _, d := range c.decls {
		b.WriteString(d)
		b.WriteString("\n")
	}
	for _, a := range c.closedHeapAxioms() {
		b.WriteString(a)
		b.WriteString("\n")
	}
	for i, a := range c.assumes[:o.nAssume] {
		if !c.relevant(c.assumeTag[i], o.tag) {
			continue
		}
		b.WriteString("(assert ")
		b.WriteString(a)
		b.WriteString(")\n")
	}
	for _, a := range o.Extra {
		b.WriteString("(assert ")
		b.WriteString(a)
		b.WriteString(")\n")
	}
	b.WriteString("; ---- goal: " + o.Name + "\n")
	if o.ExpectSat {
		b.WriteString("(assert " + o.Guard + ")\n")
	} else {
		b.WriteString("(assert (and " + o.Guard + " (not " + o.Goal + ")))\n")
	}
	b.WriteString("(check-sat)\n")
	if len(c.inputs) > 0 && !o.ExpectSat {
		b.WriteString("(get-value (" + strings.Join(c.inputs, " ") + "))\n")
	}
	return b.String()
}
